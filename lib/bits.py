"""Primitive layer under the tables and the move generator (src/bitboard.rs, src/square.rs, Move::to_algebraic):
the answers of the real primitives validated by TLC against Bitboard.tla (BitTrace.tla).  Not a listed property on
its own - C01 / C10 rest on it and decide; a mismatch is SPEC-DRIFT (recorded, no verdict)."""
import os
import re

import vlib
from vlib import log


def run(R, exe, work, seed, n=120, shards=2):
    def one(i):
        tp = os.path.join(work, "bit_%d.ndjson" % i)
        vlib.run_harness(exe, ["bit-record", "--seed", seed * 17 + i, "--n", n], stdout_path=tp)
        kinds = {}
        for l in open(tp):
            k = l.split('"ev":"', 1)[1].split('"', 1)[0]
            kinds[k] = kinds.get(k, 0) + 1
        return kinds, vlib.validate_trace("BitTrace", "BitTrace.cfg", tp, lambda e: True, timeout=1200, max_rejections=3)
    events, drift, tot = 0, [], {}
    for kinds, (matched, results, rej) in vlib.parallel(one, range(shards)):
        events += matched
        for k, v in kinds.items():
            tot[k] = tot.get(k, 0) + v
        for r in results:
            R.add_tlc(r)
        for rj in rej:
            drift.append({"event": rj["event"], "failed": re.findall(r"(D_\w+) \|-> FALSE", rj["diag"]), "diag": rj["diag"][:400]})
    out = {"events_validated": events, "events": tot, "spec_drift": drift[:3]}
    if drift:
        R.notes.append("SPEC-DRIFT (no verdict): bitboard / square primitives deviate from Bitboard.tla: %s" % str(drift[0])[:800])
        log("[%s] SPEC-DRIFT: primitives: %s" % (R.prop, str(drift[0])[:400]))
    else:
        log("[%s] bitboard / square primitives: %d answers of the real code validated against Bitboard.tla" % (R.prop, events))
    return out
