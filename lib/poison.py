"""C03, "whatever it searched earlier": entries stored under the key of a position the search never entered.

The harness searches each seed position on a fresh Searcher (event sink on) and compares the keys of the table
with the hashes of the positions the search entered.  A key that belongs to none of them is an ORPHAN: on its own a
deviation from Search.tla (drift).  For every orphan the harness looks for a real position Q with exactly that hash
among the look-alikes of the searched positions and asks the same Searcher for its move in Q; TLC (PoisonTrace.tla)
decides from ChessRules whether Q is valid and the answer legal.  The replay of a violation is the two-search
command script on the real binary."""
import json
import os

import vlib
from vlib import log

TIERS = {"quick": dict(depth=3, shards=8, synth=60), "thorough": dict(depth=4, shards=16, synth=600)}


def _cmd_position(fen4, pos):
    return {"k": "C", "kind": "position", "text": "position fen %s 0 1" % fen4, "sp": False, "start": pos, "hm": 0, "fm": 1, "moves": []}


def _cmd_go(d):
    return {"k": "C", "kind": "go", "text": "go depth %d" % d,
            "go": {"depth": d, "movetime": -1, "wtime": -1, "btime": -1, "winc": -1, "binc": -1}}


def run(R, exe, work, seed, tier):
    T = TIERS[tier]
    fens = []
    for f in ("rules.fen", "extremal.fen"):
        fens += vlib.load_fens(os.path.join(vlib.VERIF, "seeds", f))
    fl = os.path.join(work, "poison_fens.txt")
    open(fl, "w").write("\n".join(fens) + "\n")

    def shard(i):
        out = os.path.join(work, "poison_%d.ndjson" % i)
        vlib.run_harness(exe, ["search-orphans", "--fens", fl, "--depth", T["depth"], "--out", out, "--part", "%d/%d" % (i, T["shards"]),
                                "--synth", T["synth"], "--seed", seed],
                         stdout_path=os.path.join(work, "poison_stdout_%d.txt" % i), timeout=3600)
        if os.path.getsize(out) == 0:
            return out, (0, [], [])
        return out, vlib.validate_trace("PoisonTrace", "PoisonTrace.cfg", out, lambda e: True, timeout=1800, max_rejections=4)
    searches = entries = orphans = judged = panics = 0
    example = None
    for out, (matched, results, rej) in vlib.parallel(shard, range(T["shards"])):
        for r in results:
            R.add_tlc(r)
            for pr in r.prints:
                if '"JUDGED"' in pr:
                    judged += int(pr.strip("<> ").split(",")[1])
        for l in open(out):
            e = json.loads(l)
            if e["ev"] == "orph":
                searches += 1
                panics += 1 if e.get("panic") else 0
                entries += e.get("entries", 0)
                orphans += e.get("orphans", 0)
                if e.get("orphans") and example is None:
                    example = {k: e[k] for k in ("fen", "depth", "entries", "orphans")}
        for rj in rej:
            e = rj["event"]
            names = rj["failed"] or [("C03", "no_action_allows_" + e.get("ev", "?"))]
            first = vlib.fen_to_struct(e["first"]) if isinstance(e.get("first"), str) else None
            script = [_cmd_position(e["first"], first), _cmd_go(e["d1"]), _cmd_position(e["fen"], e["pos"]), _cmd_go(e["d2"]),
                      {"k": "C", "kind": "quit", "text": "quit"}]
            R.violation("C03:%s:%s:%s" % (names[0][1], e.get("first"), e.get("fen")),
                        "C03 [table probe, sub-check %s] after 'position fen %s' + 'go depth %s' the table holds an entry under the hash of the "
                        "DIFFERENT position '%s' (never entered by that search); 'go depth %s' there answers %s; %s" % (
                            [n[1] for n in names], e.get("first"), e.get("d1"), e.get("fen"), e.get("d2"), e.get("mv", "with a panic"), rj["diag"][:300]),
                        {"kind": "script", "level": "process", "script": script})
    cov = {"seed_positions": "rules / extremal seeds + %d synthetic positions per shard with an en-passant capture at the root" % T["synth"],
           "searches": searches, "table_entries_checked": entries, "entries_under_a_key_of_no_entered_position": orphans,
           "look_alike_positions_judged_by_TLC": judged, "depth": T["depth"]}
    if orphans:
        cov["example"] = example
        R.notes.append("SPEC-DRIFT (no verdict on its own): %d table entries are stored under keys that are the hash of no position the "
                       "search entered (Search.tla stores under the position of the storing node), e.g. %s" % (orphans, example))
        log("[%s] SPEC-DRIFT: %d orphan table keys, e.g. %s" % (R.prop, orphans, example))
    else:
        log("[%s] table probe: %d searches, %d entries, every key is the hash of an entered position" % (R.prop, searches, entries))
    return cov
