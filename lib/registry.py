"""Which properties are claimed, at what level, and why (source of MANIFEST.json)."""
HOOK_COMMITS = ["afda2b8", "88d2dc4", "acb4ee3", "8205e71", "74de000", "52ac3a2", "54e4b2e", "b997f38", "aafa7fa", "1c563fd"]
NOTES = ("Technique: model-based verification with an explicit TLA+ specification (spec/), checked with TLC, bound to the "
         "implementation by conformance checks in both directions. See DESIGN.md.")
NOT_CLAIMED = {}
_RULES_NOTE = ("Trusted: TLC/SANY/CommunityModules; ChessRules.tla as the statement of the FIDE rules (sanity: perft counts reproduced "
               "inside TLC, mirror symmetry, Valid inductive); the harness projection (Board -> piece codes / FEN text). Exhaustive only "
               "within the BFS bound around the seed positions; beyond that positions are sampled by specification-driven random games "
               "and recorded engine games.")
_UCI_NOTE = "Trusted: TLC; the isready fence for command boundaries; python tokenisation of output lines. Scripts are sampled behaviours of Uci.tla (TLC -simulate over UciGen.tla); the searcher's internal state is abstracted to 'arbitrary' in the specification."
_SEARCH_NOTE = "Trusted: TLC; the harness graph builder (uses the engine's move generator to enumerate, validated node by node against ChessRules.tla for a sample of graphs, otherwise covered by C01/C02/C17); the engine's static evaluation as leaf values. Restricted to positions whose full quiescence tree is finite and below the node cap."
CHECKS = {
    "C01": dict(
        text="Chess.tla states the rules (legality = pseudo-legal and own king not attacked afterwards, independent of the engine's "
             "pin/checker algorithm). TLC enumerates every distinct position within a ply bound of ~40 corner-case seeds (all subsets of "
             "rights/e.p. dropped) and long simulated games; the real generate_moves / is_in_check answers are compared with Legal / "
             "InCheck as sets (no missing, no illegal, no duplicate). Generated families are enumerated EXHAUSTIVELY: en-passant worlds "
             "(king x capturing pawn x one/two sliders on the king lines), castling worlds, pin worlds (king x own man x enemy slider on one "
             "line, optionally a checker) and the check world (king x every enemy man on every square). Engine-played games and synthetic placements are validated by TLC "
             "against ChessTrace.tla.",
        design_ref="DESIGN.md section 5, C01", note=_RULES_NOTE,
        technique="TLA+ rules spec; TLC BFS + simulation replayed into the move generator; TLC trace validation of engine games"),
    "C02": dict(
        text="Apply(pos, m) of ChessRules.tla is compared with the projected board after clone_with_move for EVERY legal move of every "
             "explored position, and along simulated games with one Board advanced by make_move only (histories); recorded engine games "
             "must satisfy pos' = Apply(pos, m) and raw bitboard consistency in every state (TLC trace validation).",
        design_ref="DESIGN.md section 5, C02", note=_RULES_NOTE,
        technique="TLA+ rules spec; TLC-generated successors replayed into make_move; TLC trace validation"),
    "C17": dict(
        text="Tactical(pos) (legal moves that capture incl. e.p., promote or give check) computed by TLC is compared as a set with "
             "generate_quiescence_moves on every explored position not in check; in check the search uses all legal moves (C01 run). "
             "Observed on the REAL search as well: the move list of every quiescence node entered by completed searches (event sink; "
             "K+P(7th) families, rules seeds, game positions) must be Tactical(p), or Legal(p) in check (ChessTrace.tla, action TQNode).",
        design_ref="DESIGN.md section 5, C17", note=_RULES_NOTE,
        technique="TLA+ rules spec; TLC-generated tactical sets replayed into the quiescence move filter; TLC trace validation"),
    "C15": dict(
        text="TT.tla models the table (Store with depth-preferred replacement, Retrieve, and Evict as a named deviation). TLC checks "
             "exhaustively (2-3 keys x depths 0..2 x 2 payloads, all histories up to length 4/5) that the table always equals the "
             "history-level reference 'last store of maximal depth per key', OnlyStored, LookupFaithful and the action properties "
             "DeepestWins / NoCrossKey. Every behaviour of the bounded model is replayed on the real TranspositionTable under "
             "adversarial 64-bit key sets; random store/retrieve histories of the real table are validated by TLC (TTTrace.tla). The table INSIDE the engine: one Searcher runs "
             "sequences of real searches (deep, shallow, shallow, another position, deep); after each the whole table is joined with the table before it and an entry that "
             "is still there must not have a smaller depth (TTSearchTrace.tla: DeepestWins across searches). Thorough tier: "
             "TLAPS proves the inductive invariant of TTCore.tla for unbounded histories and arbitrary key / depth / data sets (proofs/TTProof.tla).",
        design_ref="DESIGN.md section 5, C15",
        note="Trusted: TLC; payload (eval, move, bound) treated as opaque text. Exhaustive within the stated constants; longer histories "
             "and 64-bit keys sampled. A lookup answering 'nothing' is accepted (the property allows it) and reported as deviation.",
        technique="TLA+ table spec model-checked by TLC; all bounded-model histories replayed on the real table; TLC trace validation"),
    "C10": dict(
        text="Decided exhaustively. Geometry.tla defines slider attacks by ray walks, leaper patterns, segments and lines. The "
             "specification prints the ray list of every (piece, square); the harness asks the engine's tables for EVERY subset of each "
             "square's rays (1 119 744 look-ups), the knight/king tables and segment/line for all 64x64 pairs; TLC validates every answer "
             "(GeoTrace.tla). The engine's pre-mask is checked to lie on the rays, so other bits cannot matter; additionally random "
             "64-bit occupancies incl. queen.",
        design_ref="DESIGN.md section 5, C10",
        note="Trusted: TLC; Geometry.tla (internal consistency GeoSane checked by TLC); harness bit-mask encoding of answers.",
        technique="TLA+ geometry spec; exhaustive dump of the real tables validated by TLC (trace validation)"),
    "C11": dict(
        text="Zobrist.tla: a position is a set of features, the hash the XOR of one key per feature (counters are not features). TLC "
             "model-checks that the feature map separates every explored position from all its single-component perturbations. For many "
             "fresh key draws the harness recovers the 837 keys through the public hash() and logs positions reached by make_move, the "
             "same positions re-built with other counters, transpositions and every single-component perturbation; TLC validates: "
             "position -> hash is a function and injective on everything seen, every perturbation changes the hash, hash = XOR of "
             "feature keys, and the key-level separation conditions that extend this to all positions under that draw.",
        design_ref="DESIGN.md section 5, C11",
        note="Decided per drawn key set (sampled). 'Same hash exactly when same position' cannot hold literally for a 64-bit hash; decided "
             "is: XOR structure + pairwise-distinct non-zero keys + no collision on everything explored. If the XOR structure does not "
             "hold the key-level checks are skipped (SPEC-DRIFT) and only the sampled semantic checks decide.",
        technique="TLA+ hash spec; TLC model check of the feature map; TLC trace validation of hashes recorded from the real ZobristTable"),
    "C14": dict(
        text="Eval.tla states the required relations (antisymmetric under side swap, invariant under mirror, bounded by half the search "
             "window, pure). Positions are generated by the specification (random games, seeds, extremal material); the harness evaluates "
             "p, SwapSide(p), Mirror(p), p on ONE Evaluator in random interleavings, together with near-miss companions (colours exchanged "
             "in place per piece kind: same colour-blind occupancy, different position); TLC validates the transforms against its own "
             "definitions and the relations on every event (EvalTrace.tla), keeping a memo of all values for purity keyed on placement and "
             "side to move only (companions with castling rights / e.p. square dropped and other move counters must evaluate equally). "
             "EvalFn.tla transcribes the evaluation itself (tables generated, formula by hand); every recorded value is compared with it "
             "(difference = SPEC-DRIFT, no verdict).",
        design_ref="DESIGN.md section 5, C14",
        note="The numbers of the evaluation are transcribed (EvalFn.tla) but not part of the verdict. Positions sampled; bound = 16383.",
        technique="TLA+ relations; specification-generated positions evaluated by the real Evaluator; TLC trace validation"),
    "C03": dict(
        text="Uci.tla: CmdGo is a relation - zero or more info lines then exactly one bestmove whose move is in {Uci(m) : m in Legal(board)}, "
             "'0000' exactly when that set is empty. TLC simulates Uci.tla into command scripts (positions incl. mate/stalemate, depth, "
             "movetime 0.., clocks at/below the reserve in all token orders, earlier searches in the same process); the scripts run on "
             "the real release binary; TLC validates every recorded answer against UciTrace.tla, computing Legal(board) itself. Table probe "
             "(PoisonTrace.tla): after a search every table key must be the hash of a position that search entered; for a key that is not, "
             "the look-alike position with exactly that hash is searched on the same Searcher and TLC judges the answer (replay: the two-search script on the real binary).",
        design_ref="DESIGN.md section 5, C03", note=_UCI_NOTE,
        technique="TLA+ protocol spec; TLC-simulated scripts run on the real binary; TLC trace validation"),
    "C04": dict(
        text="CmdPosition(start, moves): board' = Play(start, moves), text produced by the specification (ToFEN6 with counters up to 5949, "
             "Uci with castling as king move and promotion letters). Hook level: the projected board after every position command must "
             "equal the specification's board (sequences of position commands, move lists up to 20+ plies, a panic is an event no action "
             "allows). Process level: the same scripts on the real binary must survive and later bestmoves must be legal in Play(start, moves).",
        design_ref="DESIGN.md section 5, C04", note=_UCI_NOTE,
        technique="TLA+ protocol spec; TLC-simulated scripts through the hooked handler and the real binary; TLC trace validation"),
    "C09": dict(
        text="Uci.tla keeps hist = positions of the most recent position command; RepDraw(q) = q occurs at least twice in hist. TLC generates "
             "histories with 0..3 earlier occurrences (reversible-move cycles, shuffles, truncations, several position commands, "
             "ucinewgame, LOOK-ALIKE positions: the same placement with other castling rights / e.p. square reached by rook / king "
             "round trips and double pushes, A-B-A command sequences); after every position command the hook asks, for every legal move, the repetition answer the search would give "
             "at ply 1; TLC requires equality with RepDraw for every move (UciTrace.tla). The REAL search is observed too: a depth-1 search on the engine's "
             "own Searcher after every position command (event sink): every successor it enters must be valued as a draw (score zero, nothing searched "
             "below) exactly when it is a third occurrence; a depth-2 search does the same for the nodes at ply 2, a depth-5 search for every node at any ply whose position is a position of the game.",
        design_ref="DESIGN.md section 5, C09", note=_UCI_NOTE + " The hook mirrors search_position (push root) + negamax's ply>0 query.",
        technique="TLA+ protocol spec with game history; TLC-simulated histories; TLC trace validation of repetition answers"),
    "C13": dict(
        text="UciTrace.tla holds memo: (commands since the engine was fresh) -> tokenised output (time/nps removed). Each TLC-generated "
             "script of depth-limited searches is run in three separate processes (three key draws) and once behind a table-filling "
             "prefix + ucinewgame; all runs are validated in one trace, every go must agree with memo or extend it. Also: the script "
             "without its leading position commands, fresh and behind a repetition-history prefix + ucinewgame; and table pressure - one "
             "game searched to depth 6-7 after every few moves without ucinewgame, in several processes (several key draws), and games whose first "
             "search is a depth-8 one (more than 2^18 table entries), and a pawn endgame searched to depth 17 (16 million nodes, more than 2^20 entries). A game continued ACROSS a ucinewgame (the next position command extends "
             "the abandoned game) and every tail that follows a ucinewgame are also run in a fresh process and must agree.",
        design_ref="DESIGN.md section 5, C13", note=_UCI_NOTE,
        technique="TLA+ protocol spec with output memo; repeated runs of TLC-simulated scripts on the real binary; TLC trace validation"),
    "C16": dict(
        text="Uci.tla: uci -> id lines then uciok; isready -> readyok; unknown / blank lines -> no output; quit and end of input -> exit "
             "status 0. TLC simulates interleavings with position/go, ending by quit or by closing stdin; the real binary is run; "
             "TLC validates outputs and exit status (UciTrace.tla). Unknown lines include blank / tab-only lines, lines that are not "
             "valid UTF-8, NUL bytes and very long lines; the last command may arrive without a line terminator before end of input; every script is also written to stdin in ONE piece (nobody waits for answers: quit may already be buffered while earlier commands are answered); truncated / malformed lines that begin like a known command. Random malformed go lines through the hooked handler (GoParse.tla): a parser "
             "failure is a violation, a different parse is SPEC-DRIFT.",
        design_ref="DESIGN.md section 5, C16", note=_UCI_NOTE,
        technique="TLA+ protocol spec; TLC-simulated scripts run on the real binary; TLC trace validation"),
    "C12": dict(
        text="TimeCtl.tla states the relation a budget must satisfy (FitsClock: <= own clock, strictly below it when any time remains; "
             "OwnClockOnly: a function of side to move, own time, own increment) without pinning the formula. TLC enumerates "
             "exhaustively all go commands over a grid of boundary values x token orders x every non-empty subset of the four tokens x both "
             "sides, with increments RELATIVE to the mover's clock (just below / at / above it), with and without a movestogo token (before / after the clock tokens), plus random lines beyond the grid; the hooked handler reports what "
             "the real parser hands to the search; TLC validates both predicates on every event (TimeTrace.tla). The allocation formula and the whole go parser are transcribed (TimeCtl "
             "ModelBudget, GoParse.tla): differences are SPEC-DRIFT only.",
        design_ref="DESIGN.md section 5, C12",
        note="Trusted: TLC; the capture hook placed right before find_best_move. Exhaustive over the stated grid only.",
        technique="TLA+ relation spec; TLC-enumerated go commands through the real parser (hook); TLC trace validation"),
    "C05": dict(
        text="Design: Search.tla (PlusCal transcription of find_best_move/negamax/search_until_quiet, table, repetition rule, clock process) "
             "is model-checked on abstract game graphs - four hand-written ones and a pseudo-random family of levelled DAGs (RandGraph.tla) - for every "
             "leaf valuation and child order: ResultIsMinimax, TTSound. Conformance "
             "(verdict): for real positions with a finite quiescence tree the harness dumps the game graph and what completed fixed-depth "
             "searches of a fresh engine concluded (score, move, EVERY table entry); TLC computes the unpruned quiescence value and minimax "
             "from the graph alone and audits root value, move and every cached claim (SearchAudit.tla). On positions of every "
             "game phase (no finiteness restriction) the alpha-beta contract is checked at the root (WindowTrace.tla) and the minimax recursion "
             "V(p,d) = max -V(p.m,d-1) over separate fresh searches (BellmanTrace.tla; roots also through the public find_best_move; tactical roots: "
             "positions in which a castling / en-passant / promotion / discovered-check move mates). Step-level "
             "binding (no verdict): TLC executes the PlusCal algorithm itself on graphs recorded from real searches and every recorded "
             "step must match (SearchTrace.tla); killer / history / repetition containers against Heur.tla.",
        design_ref="DESIGN.md section 5 C05, 11.5, 11.6", note=_SEARCH_NOTE,
        technique="TLA+/PlusCal search spec model-checked by TLC; game-graph dump of real searches audited by TLC (trace validation)"),
    "C06": dict(
        text="Design: Search.tla with a clock process that may expire at any atomic step, one or two interrupted searches before a completed "
             "one: TTSound at all times, ResultIsMinimax, NothingLeftBehind (the pre-repair behaviour StoreOnAbort=TRUE is kept as a "
             "regression model TLC must reject); also on the pseudo-random graph family. Conformance: for every node count k = 1..total AND every poll index j (the j-th "
             "should_stop() is the first to answer true) of real searches: interrupted search(es), then a completed one; TLC audits every "
             "cached claim left behind, every later result against minimax, and the repetition stack length. On game positions of every phase: interrupted at a random poll, "
             "then a completed search on the same Searcher = the fresh engine's value; in every second shard with a GAME HISTORY (a round trip played twice) and the engine's "
             "repetition answers for all successors compared before / after the interrupted search (BellmanTrace.tla, TAbortEq). Step-level binding "
             "(no verdict): interrupted + completed searches executed step by step by Search.tla in poll-budget mode (SearchTrace.tla).",
        design_ref="DESIGN.md section 5 C06, 11.5", note=_SEARCH_NOTE + " Deadlines are injected through the node/poll-budget hook in SearchTimer::should_stop.",
        technique="TLA+/PlusCal search spec with clock process model-checked by TLC; enumeration of every interruption point on the real search, audited by TLC"),
    "C07": dict(
        text="Design: Search.tla, Prompt: at most 2 node entries after the clock expired (1 under a node budget), for every expiry point. "
             "Conformance: node budgets on the real search for ordinary and quiescence-explosive positions, depths 2..5: nodes entered "
             "after the deadline <= 1, nothing entered after a true poll, at most 2 nodes between consecutive polls (a missing poll in a "
             "loop shows as a gap of the size of its subtree); TLC validates the bounds (PromptTrace.tla). Wall clock (the timer's own arithmetic is bypassed "
             "by the budgets): go movetime / clock lines on the real binary incl. budgets of 0-5 ms and positions with a single legal move / a mate in one; "
             "the budget is the one the real parser hands to the search; also SEQUENCES in one process (a long timed search, then a short one); TLC rejects a case whose SMALLEST overrun over up to 5 repetitions exceeds 500 ms or that is not answered.",
        design_ref="DESIGN.md section 5 and 7, C07",
        note="The small-constant clause is decided in node units; in milliseconds only the smallest overrun over repetitions counts (tolerance 500 ms). Budgets are sampled (every k only in the thorough tier up to the cap).",
        technique="TLA+/PlusCal search spec model-checked by TLC; node-budget traces of the real search validated by TLC"),
    "C08": dict(
        text="Design: Search.tla on graphs with mated/stalemated terminals: MateInOnePlayed (depth 1..3), NoAvoidableMateAllowed (depth 2..3) "
             "for every valuation and order, also on the pseudo-random graph family (mate-rich seeds). Conformance: candidate positions from engine playouts; TLC recomputes MateInOne / "
             "AllowsMateInOne from ChessRules.tla and validates the answers of completed searches of a fresh engine at depths 1..4 / 2..3 "
             "(MateTrace.tla); candidates the specification does not confirm are skipped. Candidates: playouts, synthetic 'won' positions "
             "(king on the edge, mates by every kind of man incl. pawns arriving on the seventh rank) and 'lost' positions (every move "
             "loses: ties between lost scores) and SPECIAL-MOVE mates (the mate, or the mating reply to avoid, is a castling move, an "
             "en-passant capture, a promotion or a discovered / double check); the candidate filter does not use the engine's check test.",
        design_ref="DESIGN.md section 5, C08", note="Trusted: TLC, ChessRules.tla. Positions sampled.",
        technique="TLA+/PlusCal search spec model-checked by TLC; TLC trace validation of real search answers against the rules spec"),
}
