"""Step-level binding of Search.tla to src/search.rs (SearchTrace.tla).

The event sink of the real search records one event per critical section; the harness builds the game
graph of the positions that were entered; TLC executes the PlusCal algorithm of Search.tla on that
graph and every recorded event must match the specification's step.  A mismatch is SPEC-DRIFT (the
code no longer follows the model step by step) - recorded in the evidence, never a violation: the
listed properties do not prescribe the algorithm.
"""
import json
import os
import re

import vlib
from vlib import ToolError, log


def run(R, exe, work, seed, aborts, cases, depth, max_events=2500, tag="steps"):
    d = os.path.join(work, tag)
    os.makedirs(d, exist_ok=True)
    lines = vlib.run_harness(exe, ["search-steps", "--out-dir", d, "--positions", cases, "--depth", depth, "--aborts", aborts,
                                   "--seed", seed, "--max-events", max_events], timeout=1800)
    metas = []
    for l in lines:
        if l.startswith("{"):
            v = json.loads(l)
            if "case" in v:
                metas.append(v)
    if not metas:
        raise ToolError("search-steps produced no case")

    def one(m):
        r = vlib.run_tlc("SearchTrace", "SearchTrace.cfg", env={"TRACE": m["case"]}, workers=1, deque=True, timeout=900, xmx="3g")
        if r.rejected_at is None:
            vlib.tlc_must_be_clean(r, "SearchTrace %s" % m["fen"])
            return m, r, None
        dg = vlib.run_tlc("SearchTrace", "SearchTrace.cfg", env={"TRACE": m["case"], "STUCK": r.rejected_at}, workers=1, deque=True,
                          timeout=900, xmx="3g")
        text = " ".join(x.strip() for x in dg.out.splitlines())
        mm = re.search(r'<<\s*"DIAG".*?(?=Error:|<<"REJECTED"|$)', text)
        return m, r, {"event_index": r.rejected_at, "diag": (mm.group(0) if mm else "(no diagnostic)")[:1500]}

    ok, drift, events, states = 0, [], 0, 0
    for m, r, rej in vlib.parallel(one, metas):
        R.add_tlc(r)
        states += r.distinct
        if rej is None:
            ok += 1
            events += m["events"]
        else:
            drift.append({"fen": m["fen"], "depth": m["D"], "aborts": m["aborts"], "budget": m["budget"], **rej})
    out = {"cases": len(metas), "accepted": ok, "events_matched": events, "specification_steps": states, "depth": depth,
           "interrupted_searches_before_the_completed_one": aborts, "spec_drift": drift[:5]}
    if drift:
        R.notes.append("SPEC-DRIFT (no verdict): %d of %d step-level traces of the real search are not behaviours of Search.tla, first: %s"
                       % (len(drift), len(metas), json.dumps(drift[0])[:1200]))
        log("[%s] SPEC-DRIFT: %d/%d step traces rejected by SearchTrace.tla; first: %s" % (R.prop, len(drift), len(metas), json.dumps(drift[0])[:600]))
    else:
        log("[%s] step-level binding: %d searches (%d events) executed by Search.tla step by step, all matched" % (R.prop, ok, events))
    return out
