"""C14 - the static evaluation is symmetric, bounded and pure.

Positions come from the specification (random games of Chess.tla, the rules seeds and extremal
material positions, all Valid by construction / checked by TLC).  The harness evaluates each p,
SwapSide(p), Mirror(p) and p again on ONE Evaluator in a random interleaving; TLC (EvalTrace.tla)
checks the transforms against its own definitions and requires the relations of Eval.tla.
"""
import json
import os
import shutil

import vlib
from vlib import ToolError, log

TIERS = {
    "quick": dict(procs=16, sim_num=4, sim_depth=80, batch=100),
    "thorough": dict(procs=16, sim_num=60, sim_depth=200, batch=400),
}


def near_misses(fen):
    """Positions that agree with `fen` on every colour-blind per-piece-type occupancy but differ in colours:
    for one piece kind (or all non-king men) the colours are exchanged in place.  A memo / cache inside the
    evaluator keyed on partial information answers one of them with the other's value, which the purity
    checks of EvalTrace.tla (same position, same value, whatever was evaluated in between) then reject.
    Candidates only: TLC decides Valid and skips the others."""
    f = fen.split()
    rows = f[0].split("/")
    out = []
    for kinds in ("p", "n", "b", "r", "q", "pnbrq"):
        if not any(c.lower() in kinds for c in f[0] if c.isalpha()):
            continue
        new = "/".join("".join(c.swapcase() if c.lower() in kinds else c for c in r) for r in rows)
        if new != f[0] and not any(o.split()[0] == new for o in out):
            out.append(" ".join([new, f[1], "-", "-"]))
    return out


def same_placement(fen):
    """the same placement and side to move with castling rights and e.p. square dropped and other move counters:
    the static score must be the same (C14: it depends on placement and side to move only)"""
    f = fen.split()
    out = [" ".join([f[0], f[1], "-", "-", "99", "80"])]
    if f[2] != "-" or f[3] != "-":
        out.append(" ".join([f[0], f[1], "-", "-"]))
    return out


def _validate(exe, work, fens_path, seed, batch, tag, chunk_base=0):
    p = os.path.join(work, "eval_%s.ndjson" % tag)
    vlib.run_harness(exe, ["eval-record", "--fens", fens_path, "--seed", seed, "--batch", batch, "--chunk-base", chunk_base], stdout_path=p)
    chunks = {}
    cur = None
    for l in open(p):
        x = json.loads(l)
        if x["ev"] == "new":
            cur = x["chunk"]
            chunks[cur] = []
        elif x["ev"] == "quad":
            chunks[cur].append(vlib.struct_to_fen(x["pos"]))
    matched, results, rej = vlib.validate_trace("EvalTrace", "EvalTrace.cfg", p, lambda e: e["ev"] == "new", timeout=3000)
    viol = []
    drift = []
    for r in results:
        for pr in r.prints:
            if '"DRIFT"' in pr:
                drift.append(pr[:300])
    _validate.drift += drift
    for rj in rej:
        names = rj["failed"]
        harness_bug = [n for n in names if n[0].startswith("H")]
        if harness_bug:
            raise ToolError("harness transform disagrees with the specification: %s" % rj["diag"][:400])
        if not names:
            names = [("C14", "no_action_allows_" + rj["event"].get("ev", "?"))]
        e = rj["event"]
        fen = None
        viol.append(("C14:%s:%s" % (names[0][1], json.dumps(e.get("pos", {}).get("bd"))),
                     "C14 [evaluation trace] TLC rejects event %d: failed sub-checks %s; values v=%s vswap=%s vmirror=%s vagain=%s; %s" % (
                         rj["stuck"], names, e.get("v"), e.get("vswap"), e.get("vmirror"), e.get("vagain"), rj["diag"][-300:]),
                     {"kind": "eval", "seed": seed, "batch": batch, "chunk": rj["segment"][0].get("chunk", 0),
                      "fens": chunks.get(rj["segment"][0].get("chunk", 0), [])}))
    return p, matched, results, viol


_validate.drift = []


def run(prop, tier, seed):
    T = TIERS[tier]
    R = vlib.Result(prop, tier, seed)
    _validate.drift = []
    exe = vlib.build_harness()
    work = vlib.workdir("eval")
    try:
        fens = vlib.load_fens(os.path.join(vlib.VERIF, "seeds", "rules.fen")) + vlib.load_fens(os.path.join(vlib.VERIF, "seeds", "extremal.fen"))
        seeds = vlib.write_seeds(fens, os.path.join(work, "seeds.ndjson"))

        def shard(i):
            emit = os.path.join(work, "sim_%d.ndjson" % i)
            r = vlib.run_tlc("Chess", "ChessSimLight.cfg", env={"SEEDS": seeds}, workers=1, simulate=T["sim_num"], depth=T["sim_depth"],
                             seed=seed * 313 + i, emit_to=emit, timeout=2400)
            vlib.tlc_must_be_clean(r, "Chess simulate (light)")
            fl = os.path.join(work, "fens_%d.txt" % i)
            n = 0
            with open(fl, "w") as f:
                if i == 0:
                    for x in fens:
                        f.write(x + "\n")
                        n += 1
                        for v in near_misses(x)[:2] + same_placement(x)[:1]:
                            f.write(v + "\n")
                            n += 1
                for j, l in enumerate(open(emit)):
                    fen = json.loads(l)["fen"]
                    f.write(fen + "\n")
                    n += 1
                    if j % 5 == 0:
                        for v in near_misses(fen):
                            f.write(v + "\n")
                            n += 1
                    if j % 3 == 1:
                        for v in same_placement(fen):
                            f.write(v + "\n")
                            n += 1
            return r, n, _validate(exe, work, fl, seed * 17 + i, T["batch"], str(i))
        quads = 0
        positions = 0
        for r, n, (p, matched, results, viol) in vlib.parallel(shard, range(T["procs"])):
            R.coverage["transitions"] += r.generated
            positions += n
            quads += matched
            for x in results:
                R.add_tlc(x)
            for sig, what, rp in viol:
                R.violation(sig, what, rp)
        R.coverage["traces_validated_against_impl"] = T["procs"]
        R.coverage["positions"] = positions
        R.coverage["evaluations"] = positions * 4
        R.coverage["events_matched"] = quads
        R.coverage["evaluation_model"] = {"module": "EvalFn.tla (transcription of src/eval.rs)", "values_compared": quads,
                                          "spec_drift": _validate.drift[:5], "drift_count": len(_validate.drift)}
        if _validate.drift:
            R.notes.append("SPEC-DRIFT (no verdict): %d evaluations differ from EvalFn.tla, e.g. %s" % (len(_validate.drift), _validate.drift[0]))
            log("[eval] SPEC-DRIFT: %d evaluations differ from EvalFn.tla; first: %s" % (len(_validate.drift), _validate.drift[0]))
        else:
            log("[eval] every recorded value equals EvalFn.tla (the transcribed evaluation)")
        e = json.loads(open(os.path.join(work, "eval_0.ndjson")).read().splitlines()[1])
        R.sample({"v": e["v"], "vswap": e["vswap"], "vmirror": e["vmirror"], "vagain": e["vagain"], "pos": e["pos"]})
        log("[eval] %d positions, %d events matched" % (positions, quads))
    finally:
        shutil.rmtree(work, ignore_errors=True)
    R.assumptions = ["TLC/SANY/CommunityModules", "bound taken as half the +-32767 search window",
                     "positions sampled by specification-driven random games plus seeds and extremal material positions"]
    return R


def replay(prop, payload):
    exe = vlib.build_harness()
    R = vlib.Result(prop, "quick", 0)
    work = vlib.workdir("evalreplay")
    try:
        fl = os.path.join(work, "fens.txt")
        open(fl, "w").write("\n".join(payload["fens"]) + "\n")
        p, matched, results, viol = _validate(exe, work, fl, payload["seed"], max(payload["batch"], len(payload["fens"])), "replay",
                                              chunk_base=payload["chunk"])
        for x in results:
            R.add_tlc(x)
        R.sample(payload["fens"][-1])
        R.coverage["traces_validated_against_impl"] = 1
        for sig, what, rp in viol:
            R.violation(sig, what, rp)
    finally:
        shutil.rmtree(work, ignore_errors=True)
    return R
