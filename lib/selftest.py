"""Self-validation of the machinery (not part of any property verdict): `bin/check selftest`.

Demonstrates that the specifications are BOUND to the code: corrupt one recorded field / drop one event
of a trace recorded from the real code and the trace must be rejected at exactly that event with the
expected sub-check; and the regression model of Search.tla (behaviour before the C06 repair) must still
be rejected by TLC.
"""
import copy
import json
import os
import shutil

import vlib
from vlib import ToolError, log


def _expect_reject(module, cfg, path, is_reset, line, subcheck, what):
    matched, results, rej = vlib.validate_trace(module, cfg, path, is_reset, max_rejections=1, xmx="4g")
    if not rej:
        raise ToolError("selftest: %s was ACCEPTED (%s)" % (what, module))
    r = rej[0]
    names = ["%s_%s" % n for n in r["failed"]]
    ok = (r["stuck"] == line) and (subcheck is None or subcheck in names)
    if not ok:
        raise ToolError("selftest: %s rejected at line %d with %s, expected line %d with %s" % (what, r["stuck"], names, line, subcheck))
    return {"what": what, "rejected_at_line": r["stuck"], "failed_sub_checks": names}


def run():
    exe = vlib.build_harness()
    work = vlib.workdir("selftest")
    report = []
    try:
        # ---- ChessTrace: recorded game, one move removed from one logged move list / one event dropped
        p = os.path.join(work, "game.ndjson")
        vlib.run_harness(exe, ["chess-record", "--seed", 5, "--games", 1, "--plies", 30], stdout_path=p)
        lines = open(p).read().splitlines()
        matched, results, rej = vlib.validate_trace("ChessTrace", "ChessTrace.cfg", p, lambda e: e["ev"] == "reset")
        if rej:
            raise ToolError("selftest: the unmodified game trace is rejected")
        idx = [i for i, l in enumerate(lines) if json.loads(l)["ev"] == "probe"][7]
        e = json.loads(lines[idx])
        removed = e["legal"].pop(3)
        q = os.path.join(work, "game_corrupt.ndjson")
        open(q, "w").write("\n".join(lines[:idx] + [json.dumps(e)] + lines[idx + 1:]) + "\n")
        report.append(_expect_reject("ChessTrace", "ChessTrace.cfg", q, lambda e: e["ev"] == "reset", idx + 1, "C01_moveset",
                                     "move %s removed from the logged move list of event %d" % (removed, idx + 1)))
        midx = [i for i, l in enumerate(lines) if json.loads(l)["ev"] == "move"][5]
        q2 = os.path.join(work, "game_dropped.ndjson")
        open(q2, "w").write("\n".join(lines[:midx] + lines[midx + 1:]) + "\n")
        r = _expect_reject("ChessTrace", "ChessTrace.cfg", q2, lambda e: e["ev"] == "reset", midx + 1, None,
                           "move event %d dropped from the trace (a missing hook event)" % (midx + 1))
        report.append(r)
        e = json.loads(lines[midx])
        e["pos"]["cr"] = []
        q3 = os.path.join(work, "game_rights.ndjson")
        open(q3, "w").write("\n".join(lines[:midx] + [json.dumps(e)] + lines[midx + 1:]) + "\n")
        report.append(_expect_reject("ChessTrace", "ChessTrace.cfg", q3, lambda e: e["ev"] == "reset", midx + 1, "C02_successor",
                                     "castling rights cleared in the logged successor of event %d" % (midx + 1)))
        # ---- SearchAudit: one cached score changed by one centipawn
        d = os.path.join(work, "dump.ndjson")
        vlib.run_harness(exe, ["search-dump", "--seed", 3, "--positions", 1, "--depth", 3, "--mode", "c05", "--out", d],
                         stdout_path=os.path.join(work, "o.txt"))
        ev = json.loads(open(d).readline())
        ev2 = copy.deepcopy(ev)
        ent = ev2["fresh"][-1]["entries"]
        k = [i for i, x in enumerate(ent) if x[3] == "E"][0]
        ent[k][2] += 1
        d2 = os.path.join(work, "dump_corrupt.ndjson")
        open(d2, "w").write(json.dumps(ev2) + "\n")
        report.append(_expect_reject("SearchAudit", "SearchAudit.cfg", d2, lambda e: True, 1, "C05_cached_claims_true",
                                     "one Exact table entry's score changed by one centipawn"))
        ev3 = copy.deepcopy(ev)
        ev3["fresh"][-1]["score"] += 1
        d3 = os.path.join(work, "dump_corrupt2.ndjson")
        open(d3, "w").write(json.dumps(ev3) + "\n")
        report.append(_expect_reject("SearchAudit", "SearchAudit.cfg", d3, lambda e: True, 1, "C05_value_is_minimax",
                                     "reported root score changed by one centipawn"))
        # ---- SearchTrace: step-level trace of a real search (one interruption first), one field changed / one event dropped
        sd = os.path.join(work, "steps")
        os.makedirs(sd, exist_ok=True)
        vlib.run_harness(exe, ["search-steps", "--out-dir", sd, "--positions", 1, "--depth", 2, "--aborts", 1, "--seed", 11])
        case = json.load(open(os.path.join(sd, "case_0.json")))

        def step_run(c, name):
            q = os.path.join(sd, name)
            json.dump(c, open(q, "w"))
            return vlib.run_tlc("SearchTrace", "SearchTrace.cfg", env={"TRACE": q}, workers=1, deque=True, timeout=900, xmx="3g")
        r0 = step_run(case, "orig.json")
        if r0.rejected_at is not None or not r0.clean:
            raise ToolError("selftest: the unmodified step trace is rejected by SearchTrace.tla")
        xs = [i for i, e in enumerate(case["events"]) if e["e"] == "X" and e["k"] == "done"]
        c1 = copy.deepcopy(case)
        c1["events"][xs[len(xs) // 2]]["s"] += 1
        r1 = step_run(c1, "score.json")
        ns = [i for i, e in enumerate(case["events"]) if e["e"] == "N" and e["ply"] > 0]
        c2 = copy.deepcopy(case)
        c2["events"][ns[len(ns) // 2]]["b"] -= 1
        r2 = step_run(c2, "window.json")
        c3 = copy.deepcopy(case)
        del c3["events"][xs[0]]
        r3 = step_run(c3, "dropped.json")
        c4 = copy.deepcopy(case)
        tt_ev = [e for e in c4["events"] if e["e"] == "R"][-1]
        tt_ev["tt"][0][3] = "L" if tt_ev["tt"][0][3] != "L" else "U"
        r4 = step_run(c4, "table.json")
        for rr, at, what in ((r1, xs[len(xs) // 2] + 1, "returned score of one node changed by one"),
                             (r2, ns[len(ns) // 2] + 1, "beta handed to one child changed by one"),
                             (r3, xs[0] + 1, "one return event dropped"),
                             (r4, len(case["events"]), "bound label of one dumped table entry changed")):
            if rr.rejected_at != at:
                raise ToolError("selftest: step trace with %s: rejected at %s, expected %d" % (what, rr.rejected_at, at))
            report.append({"what": "SearchTrace: " + what, "rejected_at_event": rr.rejected_at, "events": len(case["events"])})
        # ---- BitTrace: one answer of the shift primitive changed (a knight step that wraps round the board edge)
        bp = os.path.join(work, "bit.ndjson")
        vlib.run_harness(exe, ["bit-record", "--seed", 3, "--n", 20], stdout_path=bp)
        blines = [json.loads(l) for l in open(bp)]
        bi = [i for i, e in enumerate(blines) if e["ev"] == "shift" and e["bb"] == [7] and e["d"] == 10][0]
        blines[bi]["out"] = [17]
        bq = os.path.join(work, "bit_corrupt.ndjson")
        open(bq, "w").write("\n".join(json.dumps(e) for e in blines) + "\n")
        m, res, rej = vlib.validate_trace("BitTrace", "BitTrace.cfg", bq, lambda e: True, max_rejections=1)
        if not rej or rej[0]["stuck"] != bi + 1 or "D_shift |-> FALSE" not in rej[0]["diag"]:
            raise ToolError("selftest: corrupted shift answer not rejected at its event by BitTrace.tla: %s" % (rej[:1],))
        report.append({"what": "BitTrace: shift of {h1} by 10 answered {b3} (wrap round the edge)", "rejected_at_line": rej[0]["stuck"], "failed_sub_checks": ["D_shift"]})
        # ---- PoisonTrace: an answer that is not a legal move of the position it is given for
        pp = os.path.join(work, "poison.ndjson")
        fen = "8/8/5P2/5p2/2k1K3/8/8/8 w - -"
        ev = {"ev": "poison", "first": "8/8/8/5pP1/4K3/1k6/8/8 w - f6", "d1": 3, "fen": fen, "pos": vlib.fen_to_struct(fen), "d2": 1, "mv": "f6f7"}
        ok = dict(ev, mv="e4f5")
        open(pp, "w").write(json.dumps({"ev": "orph", "fen": ev["first"], "depth": 3, "entered": 10, "entries": 5, "orphans": 1}) + "\n" + json.dumps(ok) + "\n" + json.dumps(ev) + "\n")
        report.append(_expect_reject("PoisonTrace", "PoisonTrace.cfg", pp, lambda e: True, 3, "C03_bestmove_is_legal_in_the_position_last_set",
                                     "table probe: the pawn move f6f7 answered for a position in which the king is in check (the legal answer e4f5 before it is accepted)"))
        # ---- Search.tla regression model
        r = vlib.run_tlc("Search", "Search_regress_store_on_abort.cfg", workers=vlib.NCPU, xmx="12g", timeout=1800)
        bad = [x for x in r.errors if "Invariant" in x]
        if not bad:
            raise ToolError("selftest: Search.tla with StoreOnAbort=TRUE is not rejected")
        report.append({"what": "Search.tla with the pre-repair behaviour (store after the deadline)", "tlc": bad[0], "states": r.distinct})
    finally:
        shutil.rmtree(work, ignore_errors=True)
    os.makedirs(vlib.EVID, exist_ok=True)
    json.dump({"selftest": report}, open(os.path.join(vlib.EVID, "selftest.json"), "w"), indent=1)
    for x in report:
        log("[selftest] ok: %s" % json.dumps(x)[:300])
    print("selftest ok (%d demonstrations)" % len(report))
    return 0
