"""C07 - the search stops promptly at its deadline.

  MC   Search.tla with the free-running clock: Prompt (at most 2 node entries after expiry; at most 1
       under a node budget), checked for every expiry point on the model graphs.
  I->S node budgets on the real search for ordinary and quiescence-explosive positions, depths 2..5:
       nodes entered after the deadline, nodes entered after the first true poll (must be none), the
       largest gap in nodes between two consecutive polls (a missing poll in one loop shows as a gap of
       the size of that subtree).  TLC validates the bounds (PromptTrace.tla).
  wall clock: `go movetime T` / clock lines on the explosive positions through the real binary; the budget is the
       one the real parser hands to the search (hook); a case fails when the SMALLEST overrun over up to 5
       repetitions exceeds 500 ms (scheduling noise only adds).
"""
import json
import os
import shutil
import time

import proc
import searchmc
import vlib
from vlib import ToolError, log

TIERS = {"quick": dict(cap=4000, samples=12, maxdepth=4, shards=16, wall=3, wall_seq=2, wall_long=1500,
                       wall_go=["go movetime 0", "go movetime 5", "go movetime 20", "go movetime 400", "go wtime 15000 btime 15000 winc 0 binc 0",
                                "go wtime 5100 btime 5100 winc 0 binc 0"]),
         "thorough": dict(cap=60000, samples=150, maxdepth=6, shards=16, wall=16, wall_seq=8, wall_long=4000,
                          wall_go=["go movetime 0", "go movetime 1", "go movetime 5", "go movetime 9", "go movetime 20", "go movetime 400", "go movetime 1500",
                                   "go wtime 5100 btime 5100 winc 0 binc 0", "go wtime 3000 btime 3000 winc 0 binc 0", "go wtime 1 btime 1", "go wtime 15000 btime 15000 winc 0 binc 0",
                                   "go btime 9000 wtime 9000 binc 300 winc 300", "go depth 40 movetime 250"])}
# positions in which an engine is tempted to treat the clock specially: a single legal move, a mate in one, bare material,
# the start position (validated by the specification like every other input: PromptTrace gates on Valid)
WALL_EXTRA = ["rr6/6k1/8/8/7R/8/8/K7 w - -", "6k1/5ppp/8/8/8/8/8/R3K3 w Q -", "8/8/8/4k3/8/8/4P3/4K3 w - -",
              "rnbqkbnr/pppppppp/8/8/8/8/PPPPPPPP/RNBQKBNR w KQkq -"]
WALL_REPS = 5
WALL_TOL_MS = 500


def _fens():
    return vlib.load_fens(os.path.join(vlib.VERIF, "seeds", "explosive.fen"))


def _validate(exe, work, args, tag, R):
    tp = args[args.index("--out") + 1]
    vlib.run_harness(exe, args, stdout_path=os.path.join(work, "stdout_%s.txt" % tag), timeout=7200)
    n = sum(1 for _ in open(tp))
    if n == 0:
        return 0, {}
    matched, results, rej = vlib.validate_trace("PromptTrace", "PromptTrace.cfg", tp, lambda e: True, timeout=3600, max_rejections=4)
    for r in results:
        R.add_tlc(r)
    for rj in rej:
        names = rj["failed"] or [("C07", "no_action")]
        e = rj["event"]
        R.violation("C07:%s:%s:d%s" % (names[0][1], e.get("fen"), e.get("depth")),
                    "C07 [budget trace, sub-checks %s] position '%s' depth %s deadline at node %s: %s nodes entered in total, first true poll at %s, "
                    "largest gap between polls %s; %s" % ([x[1] for x in names], e.get("fen"), e.get("depth"), e.get("k"), e.get("final"),
                                                          e.get("at_stop"), e.get("max_gap"), rj["diag"][:200]),
                    {"kind": "prompt", "fen": e.get("fen"), "depth": e.get("depth"), "k": e.get("k")})
    stats = {"events": n, "max_gap": 0, "max_after": 0}
    for l in open(tp):
        e = json.loads(l)
        if "final" in e:
            stats["max_gap"] = max(stats["max_gap"], e["max_gap"])
            stats["max_after"] = max(stats["max_after"], e["final"] - e["k"])
    return matched, stats


def run(prop, tier, seed):
    T = TIERS[tier]
    R = vlib.Result(prop, tier, seed)
    searchmc.run(prop, tier, R, seed=seed)
    exe = vlib.build_harness()
    work = vlib.workdir("prompt")
    try:
        fl = os.path.join(work, "fens.txt")
        open(fl, "w").write("\n".join(_fens()) + "\n")

        def shard(i):
            out = os.path.join(work, "prompt_%d.ndjson" % i)
            return out, _validate(exe, work, ["search-prompt", "--seed", seed * 31 + i, "--fens", fl, "--out", out, "--cap", T["cap"], "--samples",
                                              T["samples"], "--maxdepth", T["maxdepth"], "--part", "%d/%d" % (i, T["shards"])], str(i), R)
        events = 0
        agg = {"max_gap": 0, "max_after": 0}
        for out, (matched, stats) in vlib.parallel(shard, range(T["shards"])):
            events += matched
            for k in agg:
                agg[k] = max(agg[k], stats.get(k, 0))
            if not R.coverage["samples"] and os.path.exists(out) and os.path.getsize(out):
                e = json.loads(open(out).readline())
                e.pop("pos", None)
                R.sample(e)
        R.coverage["traces_validated_against_impl"] = events
        R.coverage["budget_runs"] = {"events_matched": events, "positions": len(_fens()), "largest_gap_between_polls_seen": agg["max_gap"],
                                     "most_nodes_after_a_deadline_seen": agg["max_after"]}
        # wall clock.  The node / poll budgets above replace SearchTimer's own comparison of elapsed time and limit, so the
        # path go -> Duration -> timer.start -> `elapsed >= limit` is only exercised here.  Scheduling noise can only ADD to
        # an answer time, so a case is repeated (up to WALL_REPS times) until one run answers within the tolerance: the
        # verdict is on the MINIMUM overrun.  The budget B of a clock line is the one the engine's own parser hands to the
        # search (hook, as in C12) - the property does not pin the allocation.
        eng = vlib.build_engine()
        wall = []
        cases = []
        for fen in WALL_EXTRA + _fens()[:T["wall"]]:
            for go in T["wall_go"]:
                cases.append((fen, go))
        bsrc = os.path.join(work, "wall_cases.ndjson")
        with open(bsrc, "w") as f:
            for fen, go in cases:
                f.write(json.dumps({"k": "side", "text": "position fen %s 0 1" % fen, "stm": fen.split()[1]}) + "\n")
                f.write(json.dumps({"k": "go", "text": go, "go": {}}) + "\n")
        bout = os.path.join(work, "wall_budgets.ndjson")
        vlib.run_harness(exe, ["uci-budgets", "--in", bsrc, "--out", bout])
        budgets = [json.loads(l) for l in open(bout) if '"ev":"go"' in l]
        if len(budgets) != len(cases):
            raise ToolError("budget capture returned %d of %d go lines" % (len(budgets), len(cases)))
        for (fen, go), b in zip(cases, budgets):
            ms = b.get("budget", -1)
            if ms is None or ms < 0 or b.get("depth", 0) < 20:
                continue            # no time limit parsed from this line: nothing to measure
            overs, st = [], None
            for rep in range(WALL_REPS):
                e = proc.Engine(eng)
                try:
                    e.command("position fen %s 0 1" % fen, "position", 20)
                    t0 = time.time()
                    lines, st = e.command(go, "go", 30 + ms / 1000.0)
                    dt = (time.time() - t0) * 1000
                finally:
                    e.kill()
                overs.append(round(dt - ms, 1))
                if st != "fence" or dt - ms <= WALL_TOL_MS:
                    break
            wall.append({"ev": "wall", "fen": fen, "pos": vlib.fen_to_struct(fen), "go": go, "budget_ms": ms,
                         "overrun_ms": [int(round(x)) for x in overs], "answered": st == "fence"})
        # ... and SEQUENCES in one process: a long timed search, then a short one (whatever the timer keeps from one search to the
        # next - a cached answer of the stop test, a counter that is not rewound - shows only in the second search)
        for fen in (WALL_EXTRA[3:] + _fens())[:T["wall_seq"]]:
            overs, st = [], None
            for rep in range(WALL_REPS):
                e = proc.Engine(eng)
                try:
                    e.command("position fen %s 0 1" % fen, "position", 20)
                    e.command("go movetime %d" % T["wall_long"], "go", 60)
                    t0 = time.time()
                    lines, st = e.command("go movetime 30", "go", 60)
                    dt = (time.time() - t0) * 1000
                finally:
                    e.kill()
                overs.append(round(dt - 30, 1))
                if st != "fence" or dt - 30 <= WALL_TOL_MS:
                    break
            wall.append({"ev": "wall", "fen": fen, "pos": vlib.fen_to_struct(fen), "go": "go movetime 30 (second search of the process, after go movetime %d)" % T["wall_long"],
                         "budget_ms": 30, "overrun_ms": [int(round(x)) for x in overs], "answered": st == "fence"})
        # the verdict is TLC's (PromptTrace.tla, action TWall): answered, and the smallest overrun within the tolerance
        wtp = os.path.join(work, "wall.ndjson")
        with open(wtp, "w") as f:
            for x in wall:
                f.write(json.dumps(x) + "\n")
        if wall:
            matched, results, rej = vlib.validate_trace("PromptTrace", "PromptTrace.cfg", wtp, lambda e: True, timeout=1800, max_rejections=6)
            for r in results:
                R.add_tlc(r)
            for rj in rej:
                e = rj["event"]
                names = rj["failed"] or [("C07", "no_action")]
                R.violation("C07:wallclock:%s:%s" % (e.get("fen"), e.get("go")),
                            "C07 [wall clock, sub-checks %s] '%s' on '%s' (budget %s ms handed to the search): answered=%s, %s ms after the budget in %d "
                            "repetitions - the smallest overrun exceeds %d ms" % ([n[1] for n in names], e.get("go"), e.get("fen"), e.get("budget_ms"),
                                                                                  e.get("answered"), e.get("overrun_ms"), len(e.get("overrun_ms", [])), WALL_TOL_MS),
                            {"kind": "wall", "fen": e.get("fen"), "go": e.get("go")})
        for x in wall:
            x.pop("pos", None)
        R.coverage["wall_clock_recorded"] = wall[:12]
        log("[C07] %d budget runs matched, largest poll gap %d, most nodes after a deadline %d, %d wall-clock runs, %d violations" % (
            events, agg["max_gap"], agg["max_after"], len(wall), len(R.violations)))
    finally:
        shutil.rmtree(work, ignore_errors=True)
    R.assumptions = ["TLC/SANY/CommunityModules", "the small-constant clause is decided in node units (deadline expressed in nodes / polls), "
                     "in milliseconds only an overrun of more than 500 ms in each of 5 repetitions fails the check (scheduling noise can only add)",
                     "bounds (1 node after a node-budget deadline, 2 nodes between polls) are those model-checked on Search.tla"]
    return R


def replay(prop, payload):
    R = vlib.Result(prop, "quick", 0)
    exe = vlib.build_harness()
    work = vlib.workdir("promptreplay")
    try:
        fl = os.path.join(work, "fens.txt")
        open(fl, "w").write(payload["fen"] + "\n")
        out = os.path.join(work, "p.ndjson")
        d = int(payload.get("depth") or 3)
        matched, stats = _validate(exe, work, ["search-prompt", "--fens", fl, "--out", out, "--cap", 60000, "--samples", 60, "--maxdepth", max(2, d),
                                               "--part", "1/1" if False else "0/1"], "r", R)
        R.coverage["traces_validated_against_impl"] = matched
        R.sample(payload)
    finally:
        shutil.rmtree(work, ignore_errors=True)
    return R
