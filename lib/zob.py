"""C11 - the position hash depends on the position and nothing else.

  MC    ZobristMC: the feature map of Zobrist.tla separates every explored position from all its
        single-component perturbations.
  I->S  for many fresh ZobristTable::new() draws the harness recovers the 837 keys through the public
        hash() only, logs positions reached by make_move and re-built with other move counters,
        transpositions, knight shuffles and every single-component perturbation of sampled positions;
        TLC (ZobTrace.tla) requires: position -> hash is a function and injective on everything seen,
        every perturbation changes the hash, and - when hash = XOR of feature keys holds on all events
        - the key-level conditions that make this true for ALL positions under that draw.
"""
import json
import os
import shutil

import vlib
from vlib import ToolError, log

TIERS = {
    "quick": dict(shards=16, draws=2, games=2, plies=40, var_every=25),
    "thorough": dict(shards=16, draws=40, games=3, plies=60, var_every=20),
}


def _shard_args(T, seed, i):
    return ["zob-record", "--seed", seed * 1000 + i, "--draws", T["draws"], "--games", T["games"], "--plies", T["plies"],
            "--var-every", T["var_every"]]


def _validate(exe, work, args, R, tag):
    p = os.path.join(work, "zob_%s.ndjson" % tag)
    vlib.run_harness(exe, args, stdout_path=p)
    kinds = {}
    for l in open(p):
        k = json.loads(l)["ev"]
        kinds[k] = kinds.get(k, 0) + 1
    matched, results, rej = vlib.validate_trace("ZobTrace", "ZobTrace.cfg", p, lambda e: e["ev"] == "draw", xmx="4g", timeout=3000)
    drift = 0
    for r in results:
        for pr in r.prints:
            if '"DRIFT"' in pr:
                drift += int(pr.split(",")[1].strip(" >"))
    viol = []
    for rj in rej:
        names = rj["failed"] or [("C11", "no_action_allows_" + rj["event"].get("ev", "?"))]
        ev = {k: v for k, v in rj["event"].items() if k != "keys"}
        viol.append(("C11:%s:%s" % (names[0][1], json.dumps(ev)[:300]),
                     "C11 [hash trace] TLC rejects event %d %s: failed sub-checks %s; %s" % (rj["stuck"], json.dumps(ev)[:300], names, rj["diag"][:500]),
                     {"kind": "zob", "args": [str(a) for a in args]}))
    return p, kinds, matched, results, drift, viol


def run(prop, tier, seed):
    T = TIERS[tier]
    R = vlib.Result(prop, tier, seed)
    exe = vlib.build_harness()
    work = vlib.workdir("zob")
    try:
        seeds = vlib.write_seeds(vlib.load_fens(os.path.join(vlib.VERIF, "seeds", "rules.fen")), os.path.join(work, "seeds.ndjson"))
        mc = vlib.run_tlc("ZobristMC", "ZobristMC.cfg", env={"SEEDS": seeds}, workers=vlib.NCPU, xmx="8g", timeout=900)
        vlib.tlc_must_be_clean(mc, "ZobristMC")
        R.add_tlc(mc)
        R.coverage["feature_map_model"] = {"positions": mc.distinct, "perturbations_per_position": 64 * 12 + 1 + 4 + 64}
        tot = {}
        events = 0
        drift = 0
        out = vlib.parallel(lambda i: _validate(exe, work, _shard_args(T, seed, i), R, str(i)), range(T["shards"]))
        for p, kinds, matched, results, d, viol in out:
            events += matched
            drift += d
            for k, v in kinds.items():
                tot[k] = tot.get(k, 0) + v
            for r in results:
                R.add_tlc(r)
            for sig, what, rp in viol:
                R.violation(sig, what, rp)
        R.coverage["traces_validated_against_impl"] = tot.get("draw", 0)
        R.coverage["events"] = tot
        R.coverage["events_matched"] = events
        R.coverage["events_where_hash_is_not_xor_of_feature_keys (SPEC-DRIFT, no verdict)"] = drift
        if drift:
            R.notes.append("SPEC-DRIFT: hash != XOR of recovered feature keys on %d events; only the sampled semantic checks decided" % drift)
        evs = open(os.path.join(work, "zob_0.ndjson")).read().splitlines()
        s = json.loads(evs[1])
        R.sample({"event": s})
        R.sample({"event": json.loads(evs[3])})
        log("[zob] %d key draws, %d events matched, drift %d" % (tot.get("draw", 0), events, drift))
    finally:
        shutil.rmtree(work, ignore_errors=True)
    R.assumptions = ["TLC/SANY/CommunityModules (Bitwise)", "keys are recovered by differencing hashes of one-feature boards",
                     "decided per drawn key set; key sets are sampled (fresh thread_rng draw per ZobristTable::new())",
                     "'same hash exactly when same position' is decided as: XOR structure + key separation + no collision on everything explored"]
    return R


def replay(prop, payload):
    exe = vlib.build_harness()
    R = vlib.Result(prop, "quick", 0)
    work = vlib.workdir("zobreplay")
    try:
        p, kinds, matched, results, d, viol = _validate(exe, work, payload["args"], R, "replay")
        for r in results:
            R.add_tlc(r)
        R.sample(payload["args"])
        R.coverage["traces_validated_against_impl"] = kinds.get("draw", 0)
        for sig, what, rp in viol:
            R.violation(sig, what, rp)
    finally:
        shutil.rmtree(work, ignore_errors=True)
    return R
