"""Drive the real engine binary over pipes and record, per command, what it printed.

Command boundaries are found with an `isready` fence: after every command line the runner sends
`isready` and reads until the matching `readyok`; everything printed before it belongs to the
command (the engine is single-threaded and handles commands synchronously).  No wall-clock ordering
is used anywhere; time-outs are generous and only decide "no answer at all".
"""
import json
import os
import re
import select
import subprocess
import time


def tokenise(line):
    """one output line -> the record UciTrace.tla talks about"""
    parts = line.split()
    if not parts:
        return {"t": "other", "raw": line}
    if parts[0] == "id":
        return {"t": "id", "raw": line}
    if line.strip() == "uciok":
        return {"t": "uciok"}
    if line.strip() == "readyok":
        return {"t": "readyok"}
    if parts[0] == "bestmove":
        return {"t": "bestmove", "move": parts[1] if len(parts) > 1 else ""}
    if parts[0] == "info":
        rec = {"t": "info"}
        i = 1
        while i < len(parts):
            k = parts[i]
            if k in ("depth", "nodes"):
                rec[k] = int(parts[i + 1]) if i + 1 < len(parts) and parts[i + 1].lstrip("-").isdigit() else -1
                i += 2
            elif k == "score" and i + 2 < len(parts):
                rec["score"] = parts[i + 1] + " " + parts[i + 2]
                i += 3
            elif k in ("time", "nps"):
                i += 2      # wall-clock dependent fields are not part of the observable output
            elif k == "pv":
                rec["pv"] = parts[i + 1:]
                break
            else:
                i += 1
        return rec
    return {"t": "other", "raw": line}


class Engine:
    def __init__(self, exe):
        self.p = subprocess.Popen([exe], stdin=subprocess.PIPE, stdout=subprocess.PIPE, stderr=subprocess.DEVNULL, bufsize=0)
        self.buf = b""
        os.set_blocking(self.p.stdout.fileno(), False)

    def send(self, line, newline=True):
        try:
            # "\\xNN" in a generated line stands for the raw byte NN (lines that are not valid UTF-8)
            raw = re.sub(rb"\\x([0-9a-fA-F]{2})", lambda m: bytes([int(m.group(1), 16)]), line.encode())
            self.p.stdin.write(raw + (b"\n" if newline else b""))
            self.p.stdin.flush()
            return True
        except (BrokenPipeError, OSError):
            return False

    def _readlines(self, timeout, stop_on=None):
        """read lines until one equals stop_on (returned excluded), EOF, or time-out.
        returns (lines, status) with status in {"fence", "eof", "timeout"}"""
        lines = []
        deadline = time.time() + timeout
        while True:
            while b"\n" in self.buf:
                raw, self.buf = self.buf.split(b"\n", 1)
                s = raw.decode(errors="replace").rstrip("\r")
                if stop_on is not None and s.strip() == stop_on:
                    return lines, "fence"
                lines.append(s)
            rem = deadline - time.time()
            if rem <= 0:
                return lines, "timeout"
            r, _, _ = select.select([self.p.stdout], [], [], min(rem, 0.5))
            if r:
                try:
                    chunk = self.p.stdout.read(65536)
                except BlockingIOError:
                    chunk = None
                if chunk == b"":
                    if self.buf:
                        lines.append(self.buf.decode(errors="replace"))
                        self.buf = b""
                    return lines, "eof"
                if chunk:
                    self.buf += chunk

    def command(self, text, kind, timeout):
        """send one command and fence it; returns (lines, status)"""
        if not self.send(text):
            return [], "eof"
        if not self.send("isready"):
            return self._readlines(1.0)[0], "eof"
        lines, st = self._readlines(timeout, stop_on="readyok")
        if kind == "isready" and st == "fence":
            # the first readyok is the command's own answer, the second one is the fence
            lines2, st2 = self._readlines(timeout, stop_on="readyok")
            return lines + ["readyok"] + lines2, st2
        return lines, st

    def finish(self, how, grace):
        """quit / close stdin and wait; returns (exit status or None if still alive, trailing lines)"""
        if how == "quit":
            self.send("quit")
        try:
            self.p.stdin.close()
        except OSError:
            pass
        lines, st = self._readlines(grace)
        try:
            rc = self.p.wait(timeout=0.5 if st == "eof" else max(0.5, grace / 4))
        except subprocess.TimeoutExpired:
            rc = None
        return rc, lines

    def kill(self):
        try:
            self.p.kill()
            self.p.wait(timeout=5)
        except Exception:
            pass


def run_script(exe, script, go_timeout=60.0, other_timeout=20.0, grace=10.0):
    """script: list of command records printed by UciGen (kind, text, abstract fields).
    returns the list of trace events for UciTrace.tla"""
    events = [{"ev": "start"}]
    eng = Engine(exe)
    try:
        ended = False
        for c in script:
            kind = c["kind"]
            if kind in ("quit", "eof"):
                rc, trailing = eng.finish(kind, grace)
                events.append({"ev": "end", "how": kind, "exit": rc if rc is not None else -1,
                               "alive_after_grace_s": grace if rc is None else 0, "trailing": trailing[:5]})
                ended = True
                break
            if c.get("nonl"):
                # the last line of the input is not terminated by a newline: the command is sent as it is, stdin is
                # closed, and everything printed until the process ends belongs to it
                eng.send(c["text"], newline=False)
                try:
                    eng.p.stdin.close()
                except OSError:
                    pass
                lines, st = eng._readlines(go_timeout if kind == "go" else other_timeout)
                ev = {"ev": "cmd", "kind": kind, "text": c["text"], "out": [tokenise(x) for x in lines], "unterminated": True}
                for f in ("sp", "start", "hm", "fm", "moves", "go"):
                    if f in c:
                        ev[f] = c[f]
                events.append(ev)
                try:
                    rc = eng.p.wait(timeout=grace if st == "eof" else 0.5)
                except subprocess.TimeoutExpired:
                    rc = None
                events.append({"ev": "end", "how": "eof", "exit": rc if rc is not None else -1,
                               "alive_after_grace_s": grace if rc is None else 0, "trailing": []})
                ended = True
                break
            lines, st = eng.command(c["text"], kind, go_timeout if kind == "go" else other_timeout)
            ev = {"ev": "cmd", "kind": kind, "text": c["text"], "out": [tokenise(x) for x in lines]}
            for f in ("sp", "start", "hm", "fm", "moves", "go"):
                if f in c:
                    ev[f] = c[f]
            if st != "fence":
                # the engine died or stopped answering while handling this command
                rc = eng.p.poll()
                ev["crashed"] = True
                ev["crash"] = {"status": st, "exit": rc if rc is not None else -1}
                events.append(ev)
                ended = True
                break
            events.append(ev)
        if not ended:
            rc, trailing = eng.finish("eof", grace)
            events.append({"ev": "end", "how": "eof", "exit": rc if rc is not None else -1,
                           "alive_after_grace_s": grace if rc is None else 0, "trailing": trailing[:5]})
    finally:
        eng.kill()
    return events


def run_script_batch(exe, script, timeout=120.0, grace=10.0):
    """The whole script written to the engine's stdin in ONE write (as `engine < file` or a GUI that does not wait for
    answers would), then stdin is closed unless the script ends in quit.  Nothing fences the commands here, so the output
    is attributed to them by its grammar alone: a uci command owns the lines up to and including uciok, an isready one
    readyok line, a go the lines up to and including bestmove, every other command nothing.  Whatever does not fit is left
    with the command at which it turned up - TLC (UciTrace.tla) then rejects that command.  Returns trace events."""
    events = [{"ev": "start"}]
    body = [c for c in script if c["kind"] not in ("quit", "eof")]
    how = "quit" if any(c["kind"] == "quit" for c in script) else "eof"
    data = b""
    for c in body:
        data += re.sub(rb"\\x([0-9a-fA-F]{2})", lambda m: bytes([int(m.group(1), 16)]), c["text"].encode()) + b"\n"
    if how == "quit":
        data += b"quit\n"
    p = subprocess.Popen([exe], stdin=subprocess.PIPE, stdout=subprocess.PIPE, stderr=subprocess.DEVNULL)
    try:
        try:
            out, _ = p.communicate(data, timeout=timeout)
            rc = p.returncode
        except subprocess.TimeoutExpired:
            p.kill()
            out, _ = p.communicate()
            rc = None
    finally:
        try:
            p.kill()
        except Exception:
            pass
    lines = [x.rstrip("\r") for x in out.decode(errors="replace").split("\n")]
    if lines and lines[-1] == "":
        lines.pop()
    i = 0
    for ci, c in enumerate(body):
        kind = c["kind"]
        mine = []
        if kind == "uci":
            while i < len(lines):
                mine.append(lines[i])
                i += 1
                if mine[-1].strip() == "uciok":
                    break
        elif kind == "isready":
            if i < len(lines) and lines[i].strip() == "readyok":
                mine.append(lines[i])
                i += 1
        elif kind == "go":
            while i < len(lines):
                mine.append(lines[i])
                i += 1
                if mine[-1].startswith("bestmove"):
                    break
        if ci == len(body) - 1 and i < len(lines):
            mine += lines[i:]          # output nobody asked for
            i = len(lines)
        ev = {"ev": "cmd", "kind": kind, "text": c["text"], "out": [tokenise(x) for x in mine], "batch": True}
        for f in ("sp", "start", "hm", "fm", "moves", "go"):
            if f in c:
                ev[f] = c[f]
        events.append(ev)
    events.append({"ev": "end", "how": how, "exit": rc if rc is not None else -1, "alive_after_grace_s": grace if rc is None else 0, "trailing": []})
    return events


def load_scripts(path):
    """split the records printed by a UciGen simulation into scripts (n restarts at 1)"""
    scripts, cur = [], []
    for l in open(path):
        e = json.loads(l)
        if e.get("k") != "C":
            continue
        if e["n"] == 1 and cur:
            scripts.append(cur)
            cur = []
        cur.append(e)
    if cur:
        scripts.append(cur)
    return scripts
