"""C03, C04, C09, C13, C16 - the protocol layer, against Uci.tla.

  S->I   TLC -simulate over UciGen.tla (behaviours of Uci.tla) prints command scripts: the text is
         produced by the specification (ToFEN6, Uci), together with the abstract content.
  I->S   the scripts are fed to the REAL release binary over pipes (C03, C13, C16, black-box part of
         C04) or to the hook-enabled handler in the harness (C04 board equality, C09 repetition
         answers); what the engine answered is recorded per command and validated by TLC against
         UciTrace.tla.  Named sub-checks carry the property they belong to; a run of property X
         reports only X's sub-checks (others are noted in the evidence).
"""
import json
import os
import shutil

import proc
import vlib
from vlib import ToolError, log

PROFILE = {"C16": "handshake", "C03": "go", "C04": "position", "C13": "determinism", "C09": "repetition"}
TIERS = {
    "quick": {"C16": dict(procs=16, num=6, max_cmds=12), "C03": dict(procs=16, num=8, max_cmds=12),
              "C04": dict(procs=16, num=5, max_cmds=10), "C13": dict(procs=16, num=3, max_cmds=8, pressure=dict(procs=8, num=1, max_cmds=9, runs=3),
                          heavy=dict(procs=2, num=1, max_cmds=5, runs=3), huge=dict(procs=1, num=1)),
              "C09": dict(procs=16, num=5, max_cmds=12)},
    "thorough": {"C16": dict(procs=16, num=120, max_cmds=14), "C03": dict(procs=16, num=200, max_cmds=14),
                 "C04": dict(procs=16, num=80, max_cmds=12), "C13": dict(procs=16, num=60, max_cmds=8, pressure=dict(procs=16, num=3, max_cmds=12, runs=4),
                             heavy=dict(procs=5, num=1, max_cmds=8, runs=3), huge=dict(procs=2, num=2)),
                 "C09": dict(procs=16, num=80, max_cmds=14)},
}


def seeds_file(work, name="rules.fen"):
    fens = vlib.load_fens(os.path.join(vlib.VERIF, "seeds", name))
    return vlib.write_seeds(fens, os.path.join(work, "seeds_%s.ndjson" % name.split(".")[0]))


def gen_scripts(work, profile, procs, num, seed, max_cmds):
    seeds = seeds_file(work, "huge.fen" if profile == "huge" else "rules.fen")
    cfg = "UciGen_%s.cfg" % profile

    def one(i):
        emit = os.path.join(work, "gen_%s_%d.ndjson" % (profile, i))
        r = vlib.run_tlc("UciGen", cfg, env={"SEEDS": seeds}, workers=1, simulate=num, depth=max_cmds + 6, seed=seed * 101 + i,
                         emit_to=emit, timeout=3000)
        vlib.tlc_must_be_clean(r, "UciGen " + profile)
        return emit, r
    outs = vlib.parallel(one, range(procs))
    return outs


def classify(prop, rej, R, level, script_of):
    """turn rejections into violations of `prop` (or notes when they belong to another property)"""
    for rj in rej:
        names = rj["failed"]
        if not names:
            raise ToolError("trace rejected without a failed sub-check: %s" % rj["diag"][:500])
        if any(n[0].startswith("H") for n in names):
            raise ToolError("generated script is not a behaviour of the specification: %s" % rj["diag"][:500])
        mine = [n for n in names if n[0] == prop]
        e = rj["event"]
        what = e.get("text", e.get("how", ""))
        if not mine:
            R.notes.append("sub-check of another property failed (see that property's check): %s at '%s'" % (names, what))
            continue
        script = script_of(rj)
        detail = ""
        if e.get("ev") == "cmd":
            detail = "answered %s" % json.dumps(e.get("out"))[:300]
            if e.get("crashed"):
                detail += " then %s" % json.dumps(e.get("crash"))
        else:
            detail = "exit=%s alive_after_grace_s=%s" % (e.get("exit"), e.get("alive_after_grace_s"))
        texts = [c.get("text", "<%s>" % c.get("kind")) for c in script]
        R.violation("%s:%s:%s" % (prop, mine[0][1], " | ".join(texts)[-400:]),
                    "%s [%s trace, sub-check %s] after commands %s the engine %s; %s" % (
                        prop, level, [n[1] for n in mine], json.dumps(texts)[-600:], detail, rj["diag"][:300]),
                    {"kind": "script", "level": level, "script": script})


def continued_across_newgame(body):
    """(i, j): position command j extends position command i (same start, longer move list), or None"""
    pos_idx = [k for k, c in enumerate(body) if c["kind"] == "position"]
    for jj in reversed(pos_idx):
        for ii in reversed([k for k in pos_idx if k < jj]):
            a, b = body[ii]["text"].split(), body[jj]["text"].split()
            if len(b) > len(a) and b[:len(a)] == a and (("moves" in a) or b[len(a)] == "moves"):
                return ii, jj
    return None

NEWGAME = {"k": "C", "kind": "ucinewgame", "text": "ucinewgame"}


def script_from_segment(seg):
    """commands (as UciGen records) of the run that contains the stuck event"""
    out = []
    for e in seg:
        if e["ev"] == "cmd":
            c = {"k": "C", "n": len(out) + 1, "kind": e["kind"], "text": e["text"]}
            for f in ("sp", "start", "hm", "fm", "moves", "go"):
                if f in e:
                    c[f] = e[f]
            if e.get("unterminated"):
                c["nonl"] = True
            out.append(c)
        elif e["ev"] == "end":
            out.append({"k": "C", "n": len(out) + 1, "kind": e["how"], "text": "quit" if e["how"] == "quit" else ""})
    return out


# -------------------------------------------------------------------------------------------
# process level: C16, C03, C13 (and the black-box companion of C04)
# -------------------------------------------------------------------------------------------
def run_process_level(prop, tier, seed, R, scripts_override=None):
    T = TIERS[tier][prop]
    exe = vlib.build_engine()
    work = vlib.workdir("uci_" + prop)
    try:
        if scripts_override is None:
            gens = gen_scripts(work, PROFILE[prop], T["procs"], T["num"], seed, T["max_cmds"])
            prefix_gens = gen_scripts(work, "go", T["procs"], 1, seed + 7, 8) if prop == "C13" else None
            rep_prefix_gens = gen_scripts(work, "repetition", T["procs"], 1, seed + 9, 10) if prop == "C13" else None
        else:
            gens = None

        def shard(i):
            if scripts_override is not None:
                scripts = scripts_override if i == 0 else []
            else:
                scripts = proc.load_scripts(gens[i][0])
            if not scripts:
                return None
            tp = os.path.join(work, "trace_%d.ndjson" % i)
            n_runs = 0
            with open(tp, "w") as f:
                for s in scripts:
                    runs = [s]
                    if prop == "C16":
                        # end of input in the middle of a line: the last command arrives without a line terminator
                        b16 = [c for c in s if c["kind"] not in ("quit", "eof")]
                        if s and s[-1]["kind"] != "quit" and b16 and b16[-1]["kind"] in ("uci", "isready", "go", "position", "ucinewgame"):
                            runs.append(b16[:-1] + [dict(b16[-1], nonl=True)])
                    if prop == "C03":
                        # the same game continued across a ucinewgame: the move answered must be legal in the position last set
                        b3 = [c for c in s if c["kind"] not in ("quit", "eof")]
                        pair = continued_across_newgame(b3)
                        if pair:
                            runs.append(b3[:pair[0] + 1] + [NEWGAME] + b3[pair[1]:] + [{"k": "C", "kind": "quit", "text": "quit"}])
                    if prop == "C13":
                        # the same script in three separate processes (three key draws) and once behind a
                        # table-filling prefix + ucinewgame
                        body = [c for c in s if c["kind"] not in ("quit", "eof")]
                        tail = [c for c in s if c["kind"] in ("quit", "eof")][:1] or [{"k": "C", "kind": "quit", "text": "quit"}]
                        runs = [body + tail, body + tail, body + tail]
                        # a game continued ACROSS a ucinewgame (the position command after it extends the last one before it):
                        # nothing may be carried over, the answers are those of a fresh process given the tail alone
                        pair = continued_across_newgame(body)
                        if pair:
                            runs.append(body[:pair[0] + 1] + [NEWGAME] + body[pair[1]:] + tail)
                            runs.append(body[pair[1]:] + tail)
                        # what follows a ucinewgame inside the script must be answered as by a fresh process
                        for j, c in enumerate(body):
                            if c["kind"] == "ucinewgame" and body[j + 1:]:
                                runs.append(body[j + 1:] + tail)
                        if prefix_gens is not None:
                            pre = proc.load_scripts(prefix_gens[i][0])
                            if pre:
                                pb = [c for c in pre[0] if c["kind"] not in ("quit", "eof")]
                                runs.append(pb + [{"k": "C", "kind": "ucinewgame", "text": "ucinewgame"}] + body + tail)
                        # ... and with its leading position commands removed (the new game starts with a go), fresh and
                        # behind a prefix that ends in a game history with repeated positions + ucinewgame: nothing of that
                        # history (repetition counts, hash keys) may reach the new game
                        k0 = 0
                        while k0 < len(body) and body[k0]["kind"] in ("position", "isready"):
                            k0 += 1
                        bare = body[k0:]
                        if bare and rep_prefix_gens is not None:
                            rpre = proc.load_scripts(rep_prefix_gens[i][0])
                            if rpre:
                                rb = [c for c in rpre[0] if c["kind"] not in ("quit", "eof")]
                                while rb and rb[-1]["kind"] != "position":
                                    rb.pop()
                                runs.append(bare + tail)
                                runs.append(rb + [{"k": "C", "kind": "ucinewgame", "text": "ucinewgame"}] + bare + tail)
                    for r in runs:
                        for e in proc.run_script(exe, r):
                            f.write(json.dumps(e) + "\n")
                        n_runs += 1
                    if prop == "C16" and not any(c.get("nonl") for c in s):
                        # the same script written to stdin in ONE piece (nobody waits for the answers; quit or end of input may
                        # already be in the engine's read buffer while earlier commands are being answered)
                        for e in proc.run_script_batch(exe, s):
                            f.write(json.dumps(e) + "\n")
                        n_runs += 1
            return tp, n_runs, len(scripts), vlib.validate_trace("UciTrace", "UciTrace.cfg", tp, lambda e: e["ev"] == "start", timeout=3000, xmx="3g")
        n_shards = T["procs"] if scripts_override is None else 1
        total_runs = total_scripts = events = 0
        kinds = {}
        drift = []
        for res in vlib.parallel(shard, range(n_shards)):
            if res is None:
                continue
            tp, n_runs, n_scripts, (matched, results, rej) = res
            total_runs += n_runs
            total_scripts += n_scripts
            events += matched
            for r in results:
                R.add_tlc(r)
                for pr in r.prints:
                    if '"DRIFT"' in pr:
                        drift.append(pr[:200])
            for l in open(tp):
                e = json.loads(l)
                k = e.get("kind", e["ev"])
                kinds[k] = kinds.get(k, 0) + 1
            classify(prop, rej, R, "process", lambda rj: script_from_segment(rj["segment"]))
            if not R.coverage["samples"]:
                evs = [json.loads(x) for x in open(tp).read().splitlines()[:40]]
                for e in evs:
                    if e.get("kind") == ("go" if prop in ("C03", "C13") else "uci" if prop == "C16" else "position"):
                        R.sample({k: v for k, v in e.items() if k != "start"})
                        break
        if prop == "C13" and scripts_override is None and T.get("pressure"):
            # table pressure: one long game searched deeply (depth 6-7) without ucinewgame, each script in several
            # processes (several key draws): whatever depends on the hash keys shows only with a large table
            P = T["pressure"]
            pg = gen_scripts(work, "pressure", P["procs"], P["num"], seed + 13, P["max_cmds"])
            jobs = []
            for gi, g in enumerate(pg):
                for si, sc in enumerate(proc.load_scripts(g[0])):
                    jobs.append((gi, si, sc))
            if T.get("heavy"):
                # ... and a few games whose first search is a depth-8 one (more than 2^18 table entries afterwards)
                H = T["heavy"]
                hg = gen_scripts(work, "heavy", H["procs"], H["num"], seed + 17, H["max_cmds"])
                for gi, g in enumerate(hg):
                    for si, sc in enumerate(proc.load_scripts(g[0])):
                        jobs.insert(0, (100 + gi, si, sc))     # the long ones start first
            if T.get("huge"):
                # ... and a pawn endgame searched to depth 17: more than 2^20 table entries within one search
                U = T["huge"]
                ug = gen_scripts(work, "huge", U["procs"], U["num"], seed + 19, 3)
                for gi, g in enumerate(ug):
                    for si, sc in enumerate(proc.load_scripts(g[0])):
                        if any(c["kind"] == "go" for c in sc) and sc[[c["kind"] for c in sc].index("go") - 1]["kind"] == "position":
                            jobs.insert(0, (200 + gi, si, sc))

            def prun(job):
                gi, si, sc = job
                body = [c for c in sc if c["kind"] not in ("quit", "eof")] + [{"k": "C", "kind": "quit", "text": "quit"}]
                return proc.run_script(exe, body, go_timeout=600.0)
            # every (script, process) pair is one parallel job; the runs of one script are validated together
            flat = [j for j in jobs for _ in range(P["runs"])]
            flat_out = vlib.parallel(prun, flat)
            grouped = [flat_out[k * P["runs"]:(k + 1) * P["runs"]] for k in range(len(jobs))]
            p_runs = p_nodes = 0
            for (gi, si, sc), evs in zip(jobs, grouped):
                tp = os.path.join(work, "ptrace_%d_%d.ndjson" % (gi, si))
                with open(tp, "w") as f:
                    for run_events in evs:
                        for e in run_events:
                            f.write(json.dumps(e) + "\n")
                            for o in e.get("out", []):
                                if o.get("t") == "info":
                                    p_nodes = max(p_nodes, o.get("nodes", 0))
                        p_runs += 1
                matched, results, rej = vlib.validate_trace("UciTrace", "UciTrace.cfg", tp, lambda e: e["ev"] == "start", timeout=3000, xmx="3g")
                events += matched
                for r in results:
                    R.add_tlc(r)
                classify(prop, rej, R, "process", lambda rj: script_from_segment(rj["segment"]))
            total_runs += p_runs
            R.coverage["table_pressure"] = {"scripts": len(jobs), "engine_runs": p_runs, "largest_search_nodes": p_nodes}
            log("[C13] table pressure: %d scripts x %d processes, largest search %d nodes" % (len(jobs), P["runs"], p_nodes))
        if gens:
            for g in gens:
                R.coverage["transitions"] += g[1].generated
        R.coverage["traces_validated_against_impl"] += total_runs
        R.coverage.setdefault("process_level", {})
        R.coverage["process_level"] = {"scripts": total_scripts, "engine_runs": total_runs, "events_matched": events, "event_kinds": kinds,
                                       "info_line_shape_drift": drift[:3]}
        if drift:
            R.notes.append("SPEC-DRIFT (no verdict): %d go answers do not have the info-line shape of UciTrace.tla InfoGrammar, e.g. %s" % (len(drift), drift[0]))
        log("[%s] process level: %d scripts, %d engine runs, %d events matched, %d violations" % (prop, total_scripts, total_runs, events, len(R.violations)))
    finally:
        shutil.rmtree(work, ignore_errors=True)


# -------------------------------------------------------------------------------------------
# hook level: C04 (board equality), C09 (repetition answers)
# -------------------------------------------------------------------------------------------
def run_hook_level(prop, tier, seed, R, scripts_override=None):
    T = TIERS[tier][prop]
    exe = vlib.build_harness()
    work = vlib.workdir("ucih_" + prop)
    try:
        if scripts_override is None:
            gens = gen_scripts(work, PROFILE[prop], T["procs"], T["num"], seed, T["max_cmds"])
        else:
            p = os.path.join(work, "override.ndjson")
            with open(p, "w") as f:
                for s in scripts_override:
                    for i, c in enumerate(s):
                        c = dict(c, n=i + 1, k="C")
                        f.write(json.dumps(c) + "\n")
            gens = [(p, None)]

        def shard(i):
            src = gens[i][0]
            tp = os.path.join(work, "htrace_%d.ndjson" % i)
            vlib.run_harness(exe, ["uci-script", "--in", src, "--out", tp, "--rep", "1" if prop == "C09" else "0"])
            return tp, vlib.validate_trace("UciTrace", "UciTrace.cfg", tp, lambda e: e["ev"] == "start", timeout=3000, xmx="3g")
        events = positions = reps = rep_true = seen = seen_rep = seen2 = seen2_rep = 0
        maxlen = 0
        for tp, (matched, results, rej) in vlib.parallel(shard, range(len(gens))):
            events += matched
            for r in results:
                R.add_tlc(r)
            for l in open(tp):
                e = json.loads(l)
                if e.get("kind") == "position":
                    positions += 1
                    maxlen = max(maxlen, len(e.get("moves", [])))
                    for x in e.get("rep", []):
                        reps += 1
                        rep_true += 1 if x[1] else 0
                    for x in e.get("seen", []):
                        seen += 1
                        seen_rep += 1 if x[1] else 0
                    for x in e.get("seen2", []):
                        seen2 += 1
                        seen2_rep += 1 if x[2] else 0
                if e["ev"] == "start":
                    R.coverage["traces_validated_against_impl"] += 1
            classify(prop, rej, R, "hook", lambda rj: script_from_segment(rj["segment"]))
            if len(R.coverage["samples"]) < 2:
                for x in open(tp):
                    e = json.loads(x)
                    if e.get("kind") == "position" and e.get("moves"):
                        R.sample({k: v for k, v in e.items() if k not in ("start", "board")})
                        break
        for g in gens:
            if g[1] is not None:
                R.coverage["transitions"] += g[1].generated
        R.coverage["hook_level"] = {"events_matched": events, "position_commands": positions, "longest_move_list": maxlen,
                                    "repetition_answers": reps, "repetition_answers_true": rep_true,
                                    "successors_entered_by_the_real_depth1_search": seen, "of_which_returned_by_the_repetition_rule": seen_rep,
                                    "ply2_nodes_of_the_real_depth2_search_judged": seen2, "of_which_returned_by_the_repetition_rule_at_ply_2": seen2_rep}
        if prop == "C09" and scripts_override is None and rep_true == 0 and not R.violations:
            raise ToolError("vacuity: no generated history contained a successor that had already occurred twice")
        if prop == "C09" and scripts_override is None and seen_rep == 0 and not R.violations:
            raise ToolError("vacuity: the real search never returned through the repetition rule at ply 1")
        log("[%s] hook level: %d events matched, %d position commands, %d repetition answers (%d draws), %d violations" % (
            prop, events, positions, reps, rep_true, len(R.violations)))
    finally:
        shutil.rmtree(work, ignore_errors=True)


ASSUME = ["TLC/SANY/CommunityModules", "command boundaries found with an isready fence (the engine handles commands synchronously)",
          "scripts are sampled behaviours of Uci.tla (TLC -simulate); the searcher's internal state is abstracted to 'arbitrary'",
          "time-outs (60 s per go, 10 s to exit) only decide 'no answer at all'"]


def run(prop, tier, seed):
    R = vlib.Result(prop, tier, seed)
    R.assumptions = list(ASSUME)
    if prop in ("C16", "C03", "C13"):
        run_process_level(prop, tier, seed, R)
        if prop == "C03":
            # entries stored under the key of a position the search never entered (poison.py / PoisonTrace.tla)
            import poison
            exe = vlib.build_harness()
            work = vlib.workdir("poison")
            try:
                R.coverage["table_probe"] = poison.run(R, exe, work, seed, tier)
            finally:
                shutil.rmtree(work, ignore_errors=True)
        if prop == "C16":
            # the go parser as a whole (GoParse.tla): a parser failure on a malformed go line is a C16 matter,
            # a different (depth, limit) than the transcription is SPEC-DRIFT only
            import goparse
            exe = vlib.build_harness()
            work = vlib.workdir("goparse")
            try:
                cov, panics = goparse.run(R, exe, work, seed, 600 if tier == "quick" else 20000)
                R.coverage["go_parser"] = cov
                for rj in panics:
                    e = rj["event"]
                    R.violation("C16:go_parser_survives:%s" % e.get("text"),
                                "C16 [go parser, hook level] the line '%s' makes the command handler fail (panic) instead of being parsed or ignored" % e.get("text"),
                                {"kind": "script", "level": "process", "script": [{"k": "C", "kind": "unknown", "text": e.get("text")},
                                                                                     {"k": "C", "kind": "isready", "text": "isready"},
                                                                                     {"k": "C", "kind": "quit", "text": "quit"}]})
            finally:
                shutil.rmtree(work, ignore_errors=True)
    elif prop == "C04":
        run_hook_level(prop, tier, seed, R)
        run_process_level(prop, tier, seed, R)
    elif prop == "C09":
        import searchmc
        searchmc.run(prop, tier, R, seed=seed)
        run_hook_level(prop, tier, seed, R)
    return R


def replay(prop, payload):
    R = vlib.Result(prop, "quick", 0)
    script = payload["script"]
    if payload.get("level") == "hook":
        run_hook_level(prop, "quick", 1, R, scripts_override=[script])
    else:
        run_process_level(prop, "quick", 1, R, scripts_override=[script])
    R.sample([c.get("text") for c in script])
    return R
