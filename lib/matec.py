"""C08 - mate in one is played; an avoidable mate in one is never allowed.

  MC   Search.tla on graphs with mated / stalemated terminals: MateInOnePlayed (depth 1..3) and
       NoAvoidableMateAllowed (depth 2..3) for every valuation and order.
  I->S candidate positions proposed by engine playouts; TLC recomputes MateInOne / AllowsMateInOne from
       ChessRules and validates the answers of completed searches of a fresh engine (MateTrace.tla).
"""
import json
import os
import shutil

import searchmc
import vlib
from vlib import ToolError, log

TIERS = {"quick": dict(shards=16, mate1=3, defend=3, won=5, lost=3, special=1), "thorough": dict(shards=16, mate1=50, defend=50, won=80, lost=40, special=8)}


def _validate(exe, work, args, tag, R):
    tp = args[args.index("--out") + 1]
    vlib.run_harness(exe, args, stdout_path=os.path.join(work, "stdout_%s.txt" % tag), timeout=7200)
    if sum(1 for _ in open(tp)) == 0:
        return 0, 0, 0
    matched, results, rej = vlib.validate_trace("MateTrace", "MateTrace.cfg", tp, lambda e: True, timeout=7200, xmx="3g")
    conf = skip = 0
    for r in results:
        R.add_tlc(r)
        for pr in r.prints:
            if '"CONFIRMED"' in pr:
                a = pr.strip("<> ").split(",")
                conf += int(a[1])
                skip += int(a[2])
    for rj in rej:
        names = rj["failed"] or [("C08", "no_action")]
        e = rj["event"]
        R.violation("C08:%s:%s" % (names[0][1], e.get("fen")),
                    "C08 [%s] position '%s': completed searches answered %s; %s" % (names[0][1], e.get("fen"), json.dumps(e.get("answers")), rj["diag"][:500]),
                    {"kind": "mate", "fen": e.get("fen")})
    return matched, conf, skip


def run(prop, tier, seed):
    T = TIERS[tier]
    R = vlib.Result(prop, tier, seed)
    searchmc.run(prop, tier, R, seed=seed)
    exe = vlib.build_harness()
    work = vlib.workdir("mate")
    try:
        def shard(i):
            out = os.path.join(work, "mate_%d.ndjson" % i)
            a = _validate(exe, work, ["search-mate", "--seed", seed * 53 + i, "--mate1", T["mate1"], "--defend", T["defend"], "--out", out], str(i), R)
            # synthetic families: the strong side to move against a king on the edge (mates by every kind of man,
            # pawns arriving on the seventh rank included), and the weak side to move in a lost position
            o2 = os.path.join(work, "won_%d.ndjson" % i)
            b = _validate(exe, work, ["search-mate", "--seed", seed * 59 + i, "--mate1", 10 ** 6, "--defend", 0, "--won", T["won"], "--out", o2], "w%d" % i, R)
            o3 = os.path.join(work, "lost_%d.ndjson" % i)
            c = _validate(exe, work, ["search-mate", "--seed", seed * 61 + i, "--mate1", 0, "--defend", 10 ** 6, "--lost", T["lost"], "--out", o3], "l%d" % i, R)
            # special-move mates: the mate in one (or the mating reply to avoid) is a castling move, an en-passant capture, a
            # promotion or a discovered / double check - per shard `special` candidates of each of the seven kinds
            o4 = os.path.join(work, "special_%d.ndjson" % i)
            d = _validate(exe, work, ["search-mate", "--seed", seed * 67 + i, "--mate1", 0, "--defend", 10 ** 6, "--special", T["special"], "--out", o4], "s%d" % i, R)
            return out, tuple(x + y + z + u for x, y, z, u in zip(a, b, c, d))
        events = conf = skip = 0
        for out, (m, c, s) in vlib.parallel(shard, range(T["shards"])):
            events += m
            conf += c
            skip += s
            if len(R.coverage["samples"]) < 2 and os.path.getsize(out):
                e = json.loads(open(out).readline())
                R.sample({"kind": e["kind"], "fen": e["fen"], "answers": e["answers"]})
        R.coverage["traces_validated_against_impl"] = conf
        R.coverage["candidates"] = {"events_matched": events, "confirmed_by_the_specification": conf, "not_confirmed_skipped": skip}
        if conf == 0:
            raise ToolError("vacuity: no candidate position was confirmed by the specification")
        log("[C08] %d candidates, %d confirmed by the specification, %d violations" % (events, conf, len(R.violations)))
    finally:
        shutil.rmtree(work, ignore_errors=True)
    R.assumptions = ["TLC/SANY/CommunityModules", "candidate positions are proposed by engine playouts and confirmed by ChessRules.tla",
                     "fresh engine, completed searches at depths 1..4 (mate in one) and 2..3 (defence)"]
    return R


def replay(prop, payload):
    R = vlib.Result(prop, "quick", 0)
    exe = vlib.build_harness()
    work = vlib.workdir("matereplay")
    try:
        fl = os.path.join(work, "fens.txt")
        open(fl, "w").write(payload["fen"] + "\n")
        out = os.path.join(work, "m.ndjson")
        m, c, s = _validate(exe, work, ["search-mate", "--fens", fl, "--out", out], "r", R)
        R.coverage["traces_validated_against_impl"] = c
        R.sample(payload)
    finally:
        shutil.rmtree(work, ignore_errors=True)
    return R
