"""C01 / C02 / C17 - the rules layer: generated moves = legal moves, make_move = successor,
tactical filter = captures+promotions+checks.

One shared run (cached per tree/tier/seed under .build/cache) decides all three:

  phase A  (spec -> impl)  TLC breadth-first over Chess.tla from the seed positions (with every
           subset of rights / e.p. dropped), one record per distinct position; the harness asks
           the real code the same questions (move set, check flag, successor of EVERY legal move,
           tactical set).
  phase B  (spec -> impl)  TLC -simulate: long random games of the specification; the harness
           follows each game on ONE Board advanced by make_move only.
  phase C  (impl -> spec)  games and synthetic placements played by the real code, recorded as
           ndjson and validated by TLC against ChessTrace.tla (acceptance by POSTCONDITION).
  phase P  (spec sanity)   behaviour counts of Chess.tla equal the published perft numbers.
"""
import json
import os
import subprocess
import tempfile

import vlib
from vlib import ToolError, log

PROPS = ("C01", "C02", "C17")

PERFT = {  # published perft numbers (sanity of the specification itself, never a verdict on the code)
    "rnbqkbnr/pppppppp/8/8/8/8/PPPPPPPP/RNBQKBNR w KQkq -": [1, 20, 400, 8902],
    "r3k2r/p1ppqpb1/bn2pnp1/3PN3/1p2P3/2N2Q1p/PPPBBPPP/R3K2R w KQkq -": [1, 48, 2039],
    "8/2p5/3p4/KP5r/1R3p1k/8/4P1P1/8 w - -": [1, 14, 191, 2812],
    "r3k2r/Pppp1ppp/1b3nbN/nP6/BBP1P3/q4N2/Pp1P2PP/R2Q1RK1 w kq -": [1, 6, 264],
    "rnbq1k1r/pp1Pbppp/2p5/8/2B5/8/PPP1NnPP/RNBQK2R w KQ -": [1, 44, 1486],
    "r4rk1/1pp1qppp/p1np1n2/2b1p1B1/2B1P1b1/P1NP1N2/1PP1QPPP/R4RK1 w - -": [1, 46, 2079],
}

TIERS = {
    "quick": dict(bfs_cfg="ChessBfs.cfg", bfs_timeout=300, worlds=["ep2", "ep3", "castle1", "pin1", "chk1"], sim_procs=16, sim_num=2, sim_depth=120,
                  rec_shards=16, rec_games=2, rec_plies=50, rec_synth=40, perft_depth=2, perft_n=3),
    "thorough": dict(bfs_cfg="ChessBfs2.cfg", bfs_timeout=1500, worlds=["ep1", "ep2full", "ep3", "castle1", "castle2", "pin1", "pin2", "chk1"], sim_procs=16, sim_num=25, sim_depth=300,
                     rec_shards=16, rec_games=16, rec_plies=120, rec_synth=500, perft_depth=3, perft_n=6),
}


def _harness_replay(exe, path, mode):
    r = subprocess.run([exe, "chess-replay", "--mode", mode], stdin=open(path), stdout=subprocess.PIPE,
                       stderr=subprocess.PIPE, text=True)
    if r.returncode != 0:
        raise ToolError("harness chess-replay failed: " + r.stderr[-2000:])
    mism, summary = [], None
    for l in r.stdout.splitlines():
        v = json.loads(l)
        if v["k"] == "MISMATCH":
            mism.append(v)
        elif v["k"] == "SUMMARY":
            summary = v
    if summary is None:
        raise ToolError("harness chess-replay produced no summary")
    return mism, summary


def _walk_prefix(path, line_no):
    """the lines of the simulated game that contains line `line_no` (1-based), up to that line"""
    lines = open(path).read().splitlines()
    i = line_no - 1
    j = i
    while j > 0 and json.loads(lines[j])["ply"] != 0:
        j -= 1
    return [json.loads(x) for x in lines[j:i + 1]]


def validate_trace(trace_path, tag):
    """TLC trace validation with diagnosis: returns (events_matched, games, rejections[list])"""
    rejections = []
    total = sum(1 for _ in open(trace_path))
    res = vlib.run_tlc("ChessTrace", "ChessTrace.cfg", env={"TRACE": trace_path}, workers=1, deque=True, timeout=1200)
    if res.rejected_at is None:
        vlib.tlc_must_be_clean(res, "ChessTrace " + tag)
        return total, res, rejections
    stuck = res.rejected_at   # diameter = matched lines + 1 = index of the first unmatched line
    diag = vlib.run_tlc("ChessTrace", "ChessTrace.cfg", env={"TRACE": trace_path, "STUCK": stuck}, workers=1,
                        deque=True, timeout=1200)
    text = " ".join(l.strip() for l in diag.out.splitlines())
    import re
    m = re.search(r'<<\s*"DIAG".*?>>\s*(?=Error|<<"REJECTED"|$)', text)
    dtext = m.group(0) if m else "(no diagnostic output)"
    failed = re.findall(r"(C\d\d)_(\w+) \|-> FALSE", dtext)
    lines = open(trace_path).read().splitlines()
    # the game that contains the stuck event
    j = stuck - 1
    while j > 0 and json.loads(lines[j])["ev"] != "reset":
        j -= 1
    game = [json.loads(x) for x in lines[j:stuck]]
    if not failed:
        ev = json.loads(lines[stuck - 1])
        if ev.get("ev") == "panic":
            failed = [("C02" if ev.get("where") == "make_move" else "C01" if ev.get("where") != "generate_quiescence_moves" else "C17",
                       "panic_" + ev.get("where", "?"))]
        else:
            raise ToolError("trace %s rejected at line %d but no sub-check failed: %s" % (tag, stuck, dtext[:500]))
    rejections.append({"stuck": stuck, "failed": failed, "diag": dtext[:1500], "game": game})
    # continue after the next reset so that the rest of the trace is still examined
    k = stuck
    while k < len(lines) and json.loads(lines[k])["ev"] != "reset":
        k += 1
    if k < len(lines) and len(rejections) < 5:
        rest = trace_path + ".rest"
        with open(rest, "w") as f:
            f.write("\n".join(lines[k:]) + "\n")
        n2, res2, rej2 = validate_trace(rest, tag + "+")
        for r in rej2:
            rejections.append(r)
        os.unlink(rest)
    return stuck - 1, res, rejections


def shared_run(tier, seed):
    key = vlib.tree_hash(("rules", tier, seed),
                         spec_files=["ChessRules.tla", "Chess.tla", "ChessTrace.tla", "mc/ChessBfs.cfg", "mc/ChessBfs2.cfg", "mc/ChessSim.cfg",
                                     "mc/ChessTrace.cfg", "mc/ChessPerft.cfg", "mc/ChessPerft2.cfg", "mc/ChessWorld_ep1.cfg",
                                     "mc/ChessWorld_ep2.cfg", "mc/ChessWorld_ep2full.cfg", "mc/ChessWorld_castle1.cfg", "mc/ChessWorld_castle2.cfg", "mc/ChessWorld_pin1.cfg", "mc/ChessWorld_pin2.cfg", "mc/ChessWorld_chk1.cfg"],
                         lib_files=["rules.py", "vlib.py"])
    cdir = os.path.join(vlib.BUILD, "cache")
    os.makedirs(cdir, exist_ok=True)
    cfile = os.path.join(cdir, "rules_%s.json" % key)
    if os.path.exists(cfile):
        log("[rules] reusing the shared C01/C02/C17 run for this tree (%s)" % key)
        return json.load(open(cfile))
    T = TIERS[tier]
    exe = vlib.build_harness()
    work = tempfile.mkdtemp(prefix="rules_", dir=vlib.BUILD)
    out = {"violations": [], "phases": {}, "samples": [], "tlc_states": 0, "tlc_transitions": 0, "traces": 0}
    fens = vlib.load_fens(os.path.join(vlib.VERIF, "seeds", "rules.fen"))
    seeds = vlib.write_seeds(fens, os.path.join(work, "seeds.ndjson"))

    def add_mismatches(mism, path, mode, phase):
        for m in mism[:50]:
            recs = _walk_prefix(path, m["line"]) if mode == "walk" else [json.loads(open(path).read().splitlines()[m["line"] - 1])]
            out["violations"].append({
                "property": m["property"],
                "sig": "%s:%s:%s" % (m["property"], m["check"], m["fen"]),
                "what": "%s [%s, %s] position '%s': specification says %s, implementation says %s" % (
                    m["property"], phase, m["check"], m["fen"], json.dumps(m["expected"])[:300], json.dumps(m["got"])[:300]),
                "replay": {"kind": "states", "mode": mode, "records": recs}})

    # ---- phase A: BFS
    bfs_path = os.path.join(work, "bfs.ndjson")
    res = vlib.run_tlc("Chess", T["bfs_cfg"], env={"SEEDS": seeds}, workers=vlib.NCPU, emit_to=bfs_path, xmx="12g",
                       timeout=T["bfs_timeout"], coverage=False)
    vlib.tlc_must_be_clean(res, "Chess BFS")
    mism, summ = _harness_replay(exe, bfs_path, "bfs")
    if summ["states"] != res.distinct:
        raise ToolError("BFS emitted %d records for %d distinct states" % (summ["states"], res.distinct))
    add_mismatches(mism, bfs_path, "bfs", "BFS")
    out["phases"]["A_bfs"] = {"cfg": T["bfs_cfg"], "seeds": len(fens), "tlc_distinct_states": res.distinct,
                              "tlc_states_generated": res.generated, "exhaustive_within_bound": True, "harness": summ,
                              "wall_s": round(res.wall, 1)}
    out["tlc_states"] += res.distinct
    out["tlc_transitions"] += res.generated
    first = json.loads(open(bfs_path).readline())
    out["samples"].append({"phase": "A", "state": {k: first[k] for k in ("fen", "chk", "tact")}, "n_succ": len(first["succ"]),
                           "succ_sample": first["succ"][:2]})
    log("[rules] A: %d distinct positions, %d successors compared, %d mismatches" % (res.distinct, summ.get("successors", 0), len(mism)))

    # ---- phase W: generated families (en-passant and castling "worlds"), enumerated exhaustively
    wstats = {}
    for world in T["worlds"]:
        base = open(os.path.join(vlib.SPEC, "mc", "ChessWorld_%s.cfg" % world)).read()

        def wshard(i, world=world, base=base):
            cfg = os.path.join(work, "world_%s_%d.cfg" % (world, i))
            open(cfg, "w").write(base.replace("Shard = 0", "Shard = %d" % i).replace("NShards = 1", "NShards = 16"))
            emit = os.path.join(work, "world_%s_%d.ndjson" % (world, i))
            r = vlib.run_tlc("Chess", cfg, env={"SEEDS": seeds}, workers=1, emit_to=emit, xmx="3g", timeout=3000)
            vlib.tlc_must_be_clean(r, "Chess world " + world)
            if r.distinct == 0:
                return emit, r, [], {"states": 0}
            mm, ss = _harness_replay(exe, emit, "bfs")
            if ss["states"] != r.distinct:
                raise ToolError("world %s shard %d: %d records for %d states" % (world, i, ss["states"], r.distinct))
            return emit, r, mm, ss
        agg = {}
        nm = 0
        for emit, r, mm, ss in vlib.parallel(wshard, range(16)):
            add_mismatches(mm, emit, "bfs", "world " + world)
            nm += len(mm)
            out["tlc_states"] += r.distinct
            out["tlc_transitions"] += r.generated
            for k, v in ss.items():
                if isinstance(v, int):
                    agg[k] = agg.get(k, 0) + v
        wstats[world] = agg
        log("[rules] W(%s): %d positions, %d mismatches" % (world, agg.get("states", 0), nm))
    out["phases"]["W_worlds"] = wstats

    # ---- phase B: simulated games
    def sim(i):
        p = os.path.join(work, "sim_%d.ndjson" % i)
        r = vlib.run_tlc("Chess", "ChessSim.cfg", env={"SEEDS": seeds}, workers=1, simulate=T["sim_num"], depth=T["sim_depth"],
                         seed=seed * 1000 + i, emit_to=p, timeout=1500)
        vlib.tlc_must_be_clean(r, "Chess simulate")
        mm, ss = _harness_replay(exe, p, "walk")
        return p, r, mm, ss
    agg = {}
    nm = 0
    for p, r, mm, ss in vlib.parallel(sim, range(T["sim_procs"])):
        add_mismatches(mm, p, "walk", "simulated game")
        nm += len(mm)
        for k, v in ss.items():
            if isinstance(v, int):
                agg[k] = agg.get(k, 0) + v
        out["tlc_transitions"] += r.generated
    out["tlc_states"] += agg.get("states", 0)
    out["phases"]["B_sim"] = {"processes": T["sim_procs"], "games_per_process": T["sim_num"], "depth": T["sim_depth"], "harness": agg}
    log("[rules] B: %d walk states in %d games, %d mismatches" % (agg.get("states", 0), agg.get("walks", 0), nm))

    # ---- phase C: recorded games validated by TLC
    def rec(i):
        p = os.path.join(work, "rec_%d.ndjson" % i)
        with open(p, "w") as f:
            r = subprocess.run([exe, "chess-record", "--seed", str(seed * 7919 + i), "--games", str(T["rec_games"]), "--plies",
                                str(T["rec_plies"]), "--synthetic", str(T["rec_synth"]), "--seeds", seeds], stdout=f,
                               stderr=subprocess.PIPE, text=True)
        if r.returncode != 0:
            raise ToolError("harness chess-record failed: " + r.stderr[-1000:])
        matched, res, rej = validate_trace(p, "rec_%d" % i)
        games = [l for l in res.prints if l.startswith('<<"GAME"')]
        return p, matched, res, rej, games
    ev_total = 0
    games_valid = games_skipped = 0
    for p, matched, res, rej, games in vlib.parallel(rec, range(T["rec_shards"])):
        ev_total += matched
        out["tlc_states"] += res.distinct
        out["tlc_transitions"] += res.generated
        games_valid += sum(1 for g in games if "TRUE" in g)
        games_skipped += sum(1 for g in games if "FALSE" in g)
        for r in rej:
            for (prop, name) in r["failed"]:
                start = r["game"][0]
                movelist = [e["uci"] for e in r["game"] if e["ev"] == "move"]
                out["violations"].append({
                    "property": prop,
                    "sig": "%s:trace:%s:%s" % (prop, name, json.dumps(start["pos"]["bd"]) + " ".join(movelist)),
                    "what": "%s [recorded game, sub-check %s] TLC rejects event %d of the recorded execution: %s" % (prop, name, r["stuck"], r["diag"][:700]),
                    "replay": {"kind": "trace", "events": r["game"]}})
    out["traces"] = games_valid
    out["phases"]["C_traces"] = {"shards": T["rec_shards"], "events_matched": ev_total, "games_validated": games_valid,
                                 "games_skipped_not_Valid": games_skipped}
    p0 = os.path.join(work, "rec_0.ndjson")
    evs = open(p0).read().splitlines()
    out["samples"].append({"phase": "C", "first_events": [json.loads(x) for x in evs[1:3]]})
    log("[rules] C: %d events matched, %d games validated, %d skipped (not Valid)" % (ev_total, games_valid, games_skipped))

    # ---- phase P: perft sanity of the specification
    def perft(fen):
        sp = os.path.join(work, "perft_%d.ndjson" % abs(hash(fen)))
        vlib.write_seeds([fen], sp)
        d = min(T["perft_depth"], len(PERFT[fen]) - 1)
        r = vlib.run_tlc("Chess", "ChessPerft.cfg" if d == 3 else "ChessPerft2.cfg", env={"SEEDS": sp}, workers=4, xmx="4g", timeout=900)
        vlib.tlc_must_be_clean(r, "perft")
        want = sum(PERFT[fen][:d + 1])
        if r.distinct != want:
            raise ToolError("rules specification disagrees with published perft for %s depth %d: %d != %d" % (fen, d, r.distinct, want))
        return fen, d, r.distinct
    pf = vlib.parallel(perft, list(PERFT)[:T["perft_n"]], workers=4)
    out["phases"]["P_perft"] = [{"fen": f, "depth": d, "behaviours": n} for f, d, n in pf]
    for f, d, n in pf:
        out["tlc_states"] += n
    import shutil
    shutil.rmtree(work, ignore_errors=True)
    with open(cfile, "w") as f:
        json.dump(out, f)
    return out


QNODES = {"quick": dict(shards=16, positions=14, kpk=22, maxdepth=2, cap=330), "thorough": dict(shards=16, positions=150, kpk=250, maxdepth=3, cap=6000)}


def search_observed(R, tier, seed, fens_override=None):
    """C17 on the real search: the move list of every quiescence node entered by completed searches (event sink),
    validated by TLC against Tactical / Legal of ChessRules.tla (ChessTrace.tla, action TQNode)."""
    T = QNODES[tier]
    exe = vlib.build_harness()
    work = tempfile.mkdtemp(prefix="qnodes_", dir=vlib.BUILD)
    try:
        seeds = vlib.load_fens(os.path.join(vlib.VERIF, "seeds", "rules.fen"))

        def shard(i):
            p = os.path.join(work, "qn_%d.ndjson" % i)
            args = ["search-qnodes", "--seed", seed * 6151 + i, "--positions", T["positions"], "--kpk", T["kpk"], "--maxdepth", T["maxdepth"],
                    "--max-nodes", T["cap"], "--out", p]
            if fens_override is not None:
                fl = os.path.join(work, "fens_%d.txt" % i)
                open(fl, "w").write("\n".join(fens_override) + "\n")
                args = ["search-qnodes", "--fens", fl, "--positions", 0, "--kpk", 0, "--maxdepth", max(3, T["maxdepth"]), "--max-nodes", 100000, "--out", p]
            else:
                mine = [" ".join(f.split()[:4]) for k, f in enumerate(seeds) if k % T["shards"] == i]
                if mine:
                    fl = os.path.join(work, "fens_%d.txt" % i)
                    open(fl, "w").write("\n".join(mine) + "\n")
                    args += ["--fens", fl]
            summ = {}
            for l in vlib.run_harness(exe, args, timeout=3000):
                if l.startswith("{") and '"summary"' in l:
                    summ = json.loads(l)
            if os.path.getsize(p) == 0:
                return p, summ, 0, None, []
            matched, res, rej = validate_trace(p, "qn_%d" % i)
            return p, summ, matched, res, rej
        tot = {"searches": 0, "quiescence_nodes_entered": 0, "nodes_recorded": 0, "events_matched": 0}
        for p, summ, matched, res, rej in vlib.parallel(shard, range(1 if fens_override is not None else T["shards"])):
            for k in ("searches", "quiescence_nodes_entered", "nodes_recorded"):
                tot[k] += summ.get(k, 0)
            tot["events_matched"] += matched
            if res is not None:
                R.add_tlc(res)
            for r in rej:
                q = [e for e in r["game"] if e["ev"] == "qnode"]
                for (pp, name) in r["failed"]:
                    if pp == "C17" and q:
                        R.violation("C17:search:%s" % q[-1]["fen"],
                                    "C17 [quiescence node of a real search, sub-check %s] position '%s' (reached from '%s' at depth %s): the search examines %s; %s"
                                    % (name, q[-1]["fen"], q[-1]["root"], q[-1]["d"], json.dumps(q[-1]["moves"]), r["diag"][:500]),
                                    {"kind": "qnode", "root": q[-1]["root"], "node": q[-1]["fen"]})
        R.coverage["search_observed_quiescence_nodes"] = tot
        log("[C17] real searches: %d searches, %d quiescence nodes entered, %d distinct nodes validated by TLC, %d violations"
            % (tot["searches"], tot["quiescence_nodes_entered"], tot["nodes_recorded"], len(R.violations)))
    finally:
        import shutil
        shutil.rmtree(work, ignore_errors=True)


def run(prop, tier, seed):
    shared = shared_run(tier, seed)
    R = vlib.Result(prop, tier, seed)
    R.coverage["states"] = shared["tlc_states"]
    R.coverage["transitions"] = shared["tlc_transitions"]
    R.coverage["traces_validated_against_impl"] = shared["traces"] + shared["phases"]["B_sim"]["harness"].get("walks", 0)
    R.coverage["samples"] = shared["samples"]
    R.coverage["phases"] = shared["phases"]
    R.coverage["rule"] = ("positions: every distinct position within the BFS bound of the seed list (all sub-sets of rights/e.p. "
                          "dropped), every state of the simulated games, every state of the recorded games")
    R.assumptions = ["TLC / SANY / CommunityModules Json, IOUtils", "ChessRules.tla is the FIDE rules (perft counts reproduced, "
                     "mirror symmetry of Legal, Valid inductive on everything explored)",
                     "harness projection proj.rs (Board -> 64 codes/FEN text) is faithful",
                     "exhaustive only inside the explored neighbourhoods; the rest of the position space is sampled"]
    for v in shared["violations"]:
        if v["property"] == prop:
            R.violation(v["sig"], v["what"], v["replay"])
    if prop == "C17":
        search_observed(R, tier, seed)
    return R


def replay(prop, payload):
    """re-execute one recorded case against the current tree; returns a Result"""
    exe = vlib.build_harness()
    R = vlib.Result(prop, "quick", 0)
    work = tempfile.mkdtemp(prefix="replay_", dir=vlib.BUILD)
    try:
        if payload["kind"] == "qnode":
            search_observed(R, "quick", 1, fens_override=[payload["root"]])
            R.sample(payload)
        elif payload["kind"] == "states":
            p = os.path.join(work, "states.ndjson")
            with open(p, "w") as f:
                for r in payload["records"]:
                    f.write(json.dumps(r) + "\n")
            mism, summ = _harness_replay(exe, p, payload["mode"])
            for m in mism:
                if m["property"] == prop:
                    R.violation("%s:%s:%s" % (prop, m["check"], m["fen"]), json.dumps(m)[:800], payload)
            R.coverage["states"] = summ["states"]
            R.coverage["transitions"] = summ.get("successors", 1)
            R.sample(payload["records"][-1]["fen"])
        else:
            start = payload["events"][0]
            forced = os.path.join(work, "forced.json")
            json.dump({"pos": start["pos"], "moves": [e["uci"] for e in payload["events"] if e["ev"] == "move"]}, open(forced, "w"))
            p = os.path.join(work, "trace.ndjson")
            with open(p, "w") as f:
                r = subprocess.run([exe, "chess-record", "--forced", forced], stdout=f, stderr=subprocess.PIPE, text=True)
            if r.returncode != 0:
                raise ToolError("forced replay failed: " + r.stderr[-500:])
            matched, res, rej = validate_trace(p, "replay")
            R.add_tlc(res)
            R.coverage["traces_validated_against_impl"] = 1
            R.sample(start)
            for rj in rej:
                for (pp, name) in rj["failed"]:
                    if pp == prop:
                        R.violation("%s:trace:%s" % (pp, name), rj["diag"][:800], payload)
    finally:
        import shutil
        shutil.rmtree(work, ignore_errors=True)
    return R
