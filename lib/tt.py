"""C15 - transposition table: returns only what was stored for that key; deepest wins.

  MC   TT.tla exhaustively over small constants: TableIsRef (table = last deepest store per key, a
       history-level characterisation), OnlyStored, LookupFaithful, action properties DeepestWins and
       NoCrossKey.
  S->I every behaviour of the bounded model is replayed on the real TranspositionTable under
       adversarial 64-bit key sets and payload maps.
  I->S random store/retrieve histories recorded from the real table are validated against
       TTTrace.tla.
"""
import json
import os
import shutil

import vlib
from vlib import ToolError, log

TIERS = {
    "quick": dict(cfg="TT.cfg", cfg3="TT3.cfg", shards=8, histories=12, ops=300, sshards=8, sroots=4, sdeep=4),
    "thorough": dict(cfg="TT5.cfg", cfg3="TT3.cfg", shards=16, histories=60, ops=400, sshards=16, sroots=30, sdeep=5),
}


def prove(work):
    """tlapm on spec/proofs/TTProof.tla with an empty fingerprint cache; a failed obligation is a tool error
    (a statement about the specification, never a verdict on the code)"""
    import re
    import shutil
    import subprocess
    d = os.path.join(work, "tlaps")
    os.makedirs(d, exist_ok=True)
    shutil.copy(os.path.join(vlib.SPEC, "proofs", "TTProof.tla"), d)
    shutil.copy(os.path.join(vlib.SPEC, "TTCore.tla"), d)
    try:
        p = subprocess.run(["tlapm", "--threads", "8", "--cleanfp", "TTProof.tla"], cwd=d, stdout=subprocess.PIPE, stderr=subprocess.STDOUT,
                           text=True, timeout=1800)
    except subprocess.TimeoutExpired:
        raise ToolError("tlapm time-out on TTProof.tla")
    m = re.search(r"All (\d+) obligations proved", p.stdout)
    if p.returncode != 0 or not m:
        log(p.stdout[-3000:])
        raise ToolError("TLAPS does not prove TTProof.tla (a statement about the specification, not about the code)")
    log("[tt] TLAPS: all %s obligations of TTProof.tla proved (IndInv inductive for unbounded histories)" % m.group(1))
    return {"module": "spec/proofs/TTProof.tla", "obligations_proved": int(m.group(1)),
            "theorems": ["InitInv", "StoreInv", "RetrieveInv", "Invariance: SpecU => []IndInv", "OnlyStoredU", "DeepestWinsU"]}


def run(prop, tier, seed):
    T = TIERS[tier]
    R = vlib.Result(prop, tier, seed)
    exe = vlib.build_harness()
    work = vlib.workdir("tt")
    try:
        # MC + S->I
        emit = os.path.join(work, "tt.ndjson")
        res = vlib.run_tlc("TT", T["cfg"], workers=8, emit_to=emit, xmx="8g", coverage=True, timeout=900)
        vlib.tlc_must_be_clean(res, "TT model")
        R.add_tlc(res)
        res3 = vlib.run_tlc("TT", T["cfg3"], workers=8, xmx="8g", timeout=900)
        vlib.tlc_must_be_clean(res3, "TT model (3 keys)")
        R.add_tlc(res3)
        cov = {k: v for k, v in res.coverage.items() if k.startswith("TT!")}
        for a in ("TT!StoreStep", "TT!RetrieveStep"):
            if cov.get(a, [0, 0])[1] == 0:
                raise ToolError("vacuity: action %s never taken in the bounded model" % a)
        mism, summ = vlib.split_replay_output(vlib.run_harness(exe, ["tt-replay"], stdin_path=emit))
        if summ["histories"] != res.distinct - 1:
            raise ToolError("TT model emitted %d histories for %d states" % (summ["histories"], res.distinct))
        for m in mism[:20]:
            R.violation("C15:replay:%s:%s" % (m["check"], json.dumps(m.get("log"))),
                        "C15 [bounded-model history replayed on the real table] keys %s: specification says %s, implementation says %s; history %s" % (
                            m.get("keys"), json.dumps(m.get("expected")), json.dumps(m.get("got")), json.dumps(m.get("log"))),
                        {"kind": "history", "record": m})
        R.coverage["model"] = {"cfg": T["cfg"], "distinct_states": res.distinct, "action_coverage": cov, "exhaustive": True,
                               "three_key_model_states": res3.distinct}
        R.coverage["replay"] = summ
        R.sample({"history": json.loads(open(emit).readlines()[min(500, res.distinct - 2)])})
        log("[tt] model %d states; %d histories replayed, %d mismatches" % (res.distinct, summ["histories"], len(mism)))

        # unbounded histories: the inductive invariant of TTCore.tla, proved by TLAPS (thorough tier; the proof is
        # about the specification alone and changes only when the specification does)
        if tier == "thorough":
            R.coverage["tlaps_proof"] = prove(work)

        # I->S
        def shard(i):
            p = os.path.join(work, "rec_%d.ndjson" % i)
            vlib.run_harness(exe, ["tt-record", "--seed", seed * 100 + i, "--histories", T["histories"], "--ops", T["ops"]], stdout_path=p)
            return p, vlib.validate_trace("TTTrace", "TTTrace.cfg", p, lambda e: e["ev"] == "new")
        events = 0
        evictions = 0
        for p, (matched, results, rej) in vlib.parallel(shard, range(T["shards"])):
            events += matched
            for r in results:
                R.add_tlc(r)
                for pr in r.prints:
                    if "EVICTIONS" in pr:
                        evictions += int(pr.split(",")[1].strip(" >"))
            R.coverage["traces_validated_against_impl"] += T["histories"]
            for rj in rej:
                names = rj["failed"] or [("C15", "no_action_allows_" + rj["event"].get("ev", "?"))]
                R.violation("C15:trace:%s:%s" % (names[0][1], json.dumps(rj["event"])),
                            "C15 [recorded history] TLC rejects event %d: %s" % (rj["stuck"], rj["diag"][:800]),
                            {"kind": "trace", "segment": rj["segment"]})
        R.coverage["recorded"] = {"events_matched": events, "histories": T["shards"] * T["histories"],
                                  "lookups_answered_nothing_where_model_has_entry (deviation Evict, allowed)": evictions}
        R.sample({"recorded_events": [json.loads(x) for x in open(os.path.join(work, "rec_0.ndjson")).readlines()[1:4]]})
        # the table INSIDE the engine, across real searches (whatever the Searcher does to its table around the stores - a
        # generation counter, an ageing sweep - is invisible to store / retrieve histories): TTSearchTrace.tla
        R.coverage["across_searches"] = _across_searches(exe, work, R, [(seed * 41 + i, T["sroots"], T["sdeep"]) for i in range(T["sshards"])])
        log("[tt] %d recorded events matched" % events)
    finally:
        shutil.rmtree(work, ignore_errors=True)
    R.assumptions = ["TLC/SANY/CommunityModules", "entry payload (eval, move, bound) is opaque to store/retrieve (projected as text)",
                     "exhaustive for <=3 keys x depths 0..2 x 2 payloads up to the stated history length; longer histories sampled"]
    return R


def _across_searches(exe, work, R, jobs):
    def one(job):
        sd, roots, deep = job
        p = os.path.join(work, "tts_%d.ndjson" % sd)
        vlib.run_harness(exe, ["tt-searches", "--seed", sd, "--roots", roots, "--deep", deep, "--out", p], stdout_path=os.path.join(work, "tts_stdout_%d.txt" % sd))
        return job, p, vlib.validate_trace("TTSearchTrace", "TTSearchTrace.cfg", p, lambda e: e["ev"] == "ttnew", max_rejections=3)
    steps = replaced = evicted = 0
    for job, p, (matched, results, rej) in vlib.parallel(one, jobs):
        steps += matched
        for r in results:
            R.add_tlc(r)
            for pr in r.prints:
                if "TTSEARCH" in pr:
                    a = pr.strip("<> ").split(",")
                    replaced += int(a[1])
                    evicted += int(a[2])
        for rj in rej:
            names = rj["failed"] or [("C15", "no_action_allows_" + rj["event"].get("ev", "?"))]
            e = rj["event"]
            R.violation("C15:searches:%s:%s:%s" % (names[0][1], e.get("fen"), e.get("depth")),
                        "C15 [the table inside the engine, sub-check %s] after the search of '%s' to depth %s on a Searcher that had searched deeper before, "
                        "an entry that is still in the table has a SMALLER depth than before; %s" % ([n[1] for n in names], e.get("fen"), e.get("depth"), rj["diag"][:500]),
                        {"kind": "searches", "seed": job[0], "roots": job[1], "deep": job[2]})
    return {"search_steps_validated": steps, "entries_replaced_by_an_equal_or_deeper_store": replaced, "entries_gone (deviation Evict)": evicted}


def replay(prop, payload):
    """re-execute a recorded case on the current tree"""
    exe = vlib.build_harness()
    R = vlib.Result(prop, "quick", 0)
    work = vlib.workdir("ttreplay")
    try:
        if payload["kind"] == "searches":
            R.coverage["across_searches"] = _across_searches(exe, work, R, [(payload["seed"], payload["roots"], payload["deep"])])
            R.coverage["traces_validated_against_impl"] = 1
            R.sample(payload)
            return R
        if payload["kind"] == "history":
            rec = payload["record"]
            p = os.path.join(work, "h.ndjson")
            with open(p, "w") as f:
                f.write(json.dumps({"log": rec["log"], "tt": rec["tt"]}) + "\n")
            mism, summ = vlib.split_replay_output(vlib.run_harness(exe, ["tt-replay"], stdin_path=p))
            R.coverage["states"] = R.coverage["transitions"] = summ["lookups"]
            R.sample(rec["log"])
            for m in mism:
                R.violation("C15:replay", json.dumps(m)[:800], payload)
            return R
        src = os.path.join(work, "src.ndjson")
        with open(src, "w") as f:
            for e in payload["segment"]:
                f.write(json.dumps(e) + "\n")
        p = os.path.join(work, "t.ndjson")
        vlib.run_harness(exe, ["tt-record", "--forced", src], stdout_path=p)
        matched, results, rej = vlib.validate_trace("TTTrace", "TTTrace.cfg", p, lambda e: e["ev"] == "new")
        for r in results:
            R.add_tlc(r)
        R.coverage["traces_validated_against_impl"] = 1
        for rj in rej:
            R.violation("C15:trace", rj["diag"][:800], payload)
        R.sample(payload["segment"][-1])
    finally:
        shutil.rmtree(work, ignore_errors=True)
    return R
