"""Orchestration helpers for the Flounder verification framework (python3, stdlib only).

Python is used for plumbing only: building the harness / engine from /repo's current working tree,
running TLC, sharding, collecting statistics, writing evidence.  Verdicts come from TLC evaluating
the TLA+ specification (trace validation) or from structural equality between values TLC computed
from the specification and the projected answers of the implementation (replay).
"""
import concurrent.futures
import hashlib
import json
import os
import re
import shutil
import subprocess
import sys
import time
import uuid

VERIF = os.path.dirname(os.path.dirname(os.path.abspath(__file__)))
REPO = os.environ.get("VERIF_REPO", "/repo")
BUILD = os.path.join(VERIF, ".build")
SPEC = os.path.join(VERIF, "spec")
OUT = os.path.join(VERIF, "out")
EVID = os.path.join(VERIF, "evidence")
HARNESS = os.path.join(VERIF, "harness")
TLA_CP = "/opt/veriftools/tla/tla2tools.jar:/opt/veriftools/tla/CommunityModules-deps.jar"
NCPU = min(16, os.cpu_count() or 4)


class ToolError(Exception):
    """Something in the machinery failed (build, TLC crash, time-out): exit 2, never a verdict."""


def log(*a):
    print(*a, file=sys.stderr, flush=True)


# --------------------------------------------------------------------------------------------
# building
# --------------------------------------------------------------------------------------------
def tree_hash(extra=(), spec_files=None, lib_files=None):
    """content hash of everything a result depends on (never reuse results across trees).
    spec_files / lib_files narrow the specification / runner files that matter for this result."""
    h = hashlib.sha256()
    roots = [os.path.join(REPO, "src"), os.path.join(REPO, "Cargo.toml"), os.path.join(REPO, "Cargo.lock"),
             os.path.join(HARNESS, "src"), os.path.join(HARNESS, "Cargo.toml"), os.path.join(VERIF, "seeds"),
             os.path.join(VERIF, "bin")]
    roots += [os.path.join(SPEC, f) for f in spec_files] if spec_files else [SPEC]
    roots += [os.path.join(VERIF, "lib", f) for f in lib_files] if lib_files else [os.path.join(VERIF, "lib")]
    for r in roots:
        if os.path.isfile(r):
            files = [r]
        else:
            files = []
            for d, dn, fn in os.walk(r):
                dn[:] = [x for x in dn if x not in ("__pycache__", "states")]
                files += [os.path.join(d, f) for f in fn if not f.endswith(".pyc") and f != "repo_mods.rs"]
        for f in sorted(files):
            h.update(f.encode())
            with open(f, "rb") as fh:
                h.update(fh.read())
    for e in extra:
        h.update(str(e).encode())
    return h.hexdigest()[:24]


def build_harness():
    """(Re)build the harness against /repo's current working tree, hooks enabled."""
    main_rs = open(os.path.join(REPO, "src", "main.rs")).read()
    mods = re.findall(r"^\s*(?:pub\s+)?mod\s+(\w+)\s*;", main_rs, re.M)
    if not mods:
        raise ToolError("no modules found in %s/src/main.rs" % REPO)
    text = "".join('#[path = "%s/src/%s.rs"]\nmod %s;\n' % (REPO, m, m) for m in mods)
    p = os.path.join(HARNESS, "src", "repo_mods.rs")
    if not os.path.exists(p) or open(p).read() != text:
        with open(p, "w") as f:
            f.write(text)
    env = dict(os.environ, CARGO_NET_OFFLINE="true")
    t0 = time.time()
    r = subprocess.run(["cargo", "build", "--release", "--offline"], cwd=HARNESS, env=env,
                       stdout=subprocess.PIPE, stderr=subprocess.STDOUT, text=True)
    if r.returncode != 0:
        log(r.stdout[-4000:])
        raise ToolError("harness build failed")
    exe = os.path.join(BUILD, "harness-target", "release", "fh")
    if not os.path.exists(exe):
        raise ToolError("harness binary missing")
    log("[build] harness ok (%.1fs)" % (time.time() - t0))
    return exe


def build_engine():
    """Build the real release binary (no hooks) from /repo's current working tree."""
    env = dict(os.environ, CARGO_NET_OFFLINE="true")
    env.pop("RUSTFLAGS", None)
    t0 = time.time()
    tdir = os.path.join(BUILD, "engine-target")
    r = subprocess.run(["cargo", "build", "--release", "--offline", "--manifest-path", os.path.join(REPO, "Cargo.toml"),
                        "--target-dir", tdir], env=env, stdout=subprocess.PIPE, stderr=subprocess.STDOUT, text=True)
    if r.returncode != 0:
        log(r.stdout[-4000:])
        raise ToolError("engine build failed")
    exe = os.path.join(tdir, "release", "flounder")
    if not os.path.exists(exe):
        raise ToolError("engine binary missing")
    log("[build] engine ok (%.1fs)" % (time.time() - t0))
    return exe


# --------------------------------------------------------------------------------------------
# TLC
# --------------------------------------------------------------------------------------------
class Tlc:
    def __init__(self):
        self.rc = None
        self.out = ""
        self.generated = 0
        self.distinct = 0
        self.depth = 0
        self.emitted = []      # payloads of PrintT(<<"@@", json>>)
        self.prints = []       # other PrintT tuples (raw text)
        self.errors = []
        self.rejected_at = None
        self.coverage = {}
        self.wall = 0.0

    @property
    def clean(self):
        return self.rc == 0 and not self.errors


_EMIT = '<<"@@", '


def parse_emit(line):
    s = line.rstrip("\n")
    if not s.startswith(_EMIT) or not s.endswith(">>"):
        return None
    return json.loads(json.loads(s[len(_EMIT):-2]))


def run_tlc(module, cfg, env=None, workers=1, simulate=None, depth=None, seed=None, timeout=600, deque=False,
            coverage=False, xmx="2g", emit_to=None, keep_out=True, extra=()):
    """Run TLC on spec/<module>.tla with spec/mc/<cfg>.  Returns a Tlc result.  Raises ToolError on
    time-out or when TLC itself fails (parse error, evaluation error, ...)."""
    meta = os.path.join(BUILD, "tlc", uuid.uuid4().hex)
    os.makedirs(meta, exist_ok=True)
    java = ["java", "-Xss1g", "-Xmx" + xmx]
    java += ["-XX:+UseSerialGC"] if workers == 1 else ["-XX:+UseParallelGC", "-XX:ParallelGCThreads=%d" % max(2, workers // 2)]
    if deque:
        java += ["-Dtlc2.tool.queue.IStateQueue=StateDeque"]
    cmd = java + ["-cp", TLA_CP, "tlc2.TLC", "-workers", str(workers), "-metadir", meta, "-cleanup",
                  "-noGenerateSpecTE", "-config", cfg if os.path.isabs(cfg) else os.path.join("mc", cfg)]
    if simulate is not None:
        cmd += ["-simulate", "num=%d" % simulate]
    if depth is not None:
        cmd += ["-depth", str(depth)]
    if seed is not None:
        cmd += ["-seed", str(seed)]
    if coverage:
        cmd += ["-coverage", "1"]
    cmd += list(extra) + [module + ".tla"]
    e = dict(os.environ)
    e.pop("JAVA_TOOL_OPTIONS", None)
    if env:
        e.update({k: str(v) for k, v in env.items()})
    res = Tlc()
    t0 = time.time()
    emit_f = open(emit_to, "w") if emit_to else None
    try:
        p = subprocess.Popen(cmd, cwd=SPEC, env=e, stdout=subprocess.PIPE, stderr=subprocess.STDOUT, text=True)
        lines = []
        try:
            deadline = t0 + timeout
            for line in p.stdout:
                if line.startswith(_EMIT):
                    try:
                        payload = parse_emit(line)
                    except Exception:
                        payload = None
                    if payload is not None:
                        if emit_f:
                            emit_f.write(json.dumps(payload) + "\n")
                        else:
                            res.emitted.append(payload)
                        continue
                lines.append(line)
                if time.time() > deadline:
                    p.kill()
                    raise ToolError("TLC time-out after %ds: %s %s" % (timeout, module, cfg))
            p.wait(timeout=max(1, deadline - time.time()))
        except subprocess.TimeoutExpired:
            p.kill()
            raise ToolError("TLC time-out after %ds: %s %s" % (timeout, module, cfg))
        res.rc = p.returncode
    finally:
        if emit_f:
            emit_f.close()
        shutil.rmtree(meta, ignore_errors=True)
    res.wall = time.time() - t0
    out = "".join(lines)
    res.out = out if keep_out else out[-20000:]
    m = re.findall(r"(\d+) states generated, (\d+) distinct states found", out)
    if m:
        res.generated, res.distinct = int(m[-1][0]), int(m[-1][1])
    m = re.findall(r"The depth of the complete state graph search is (\d+)", out)
    if m:
        res.depth = int(m[-1])
    m = re.search(r'<<"REJECTED", (\d+)>>', out)
    if m:
        res.rejected_at = int(m.group(1))
    res.errors = [l for l in out.splitlines() if l.startswith("Error:")]
    res.prints = [l for l in out.splitlines() if l.startswith("<<")]
    if coverage:
        for mm in re.finditer(r"<(\w+) line \d+, col \d+ to line \d+, col \d+ of module (\w+)>: (\d+):(\d+)", out):
            res.coverage[mm.group(2) + "!" + mm.group(1)] = [int(mm.group(3)), int(mm.group(4))]
    return res


def tlc_must_be_clean(res, what):
    """TLC finished without any error of its own (a rejected trace is handled by the caller)."""
    if res.rc not in (0,) or res.errors:
        log(res.out[-6000:])
        raise ToolError("TLC failed on %s (rc=%s): %s" % (what, res.rc, "; ".join(res.errors[:3])))


def parallel(fn, items, workers=NCPU):
    with concurrent.futures.ThreadPoolExecutor(max_workers=workers) as ex:
        return list(ex.map(fn, items))


# --------------------------------------------------------------------------------------------
# seeds
# --------------------------------------------------------------------------------------------
def fen_to_struct(fen):
    f = fen.split()
    bd = [0] * 64
    codes = {c: i + 1 for i, c in enumerate("PNBRQKpnbrqk")}
    r = 7
    for row in f[0].split("/"):
        file = 0
        for ch in row:
            if ch.isdigit():
                file += int(ch)
            else:
                bd[r * 8 + file] = codes[ch]
                file += 1
        r -= 1
    ep = -1 if f[3] == "-" else (ord(f[3][0]) - 97) + 8 * (int(f[3][1]) - 1)
    cr = [] if f[2] == "-" else list(f[2])
    return {"bd": bd, "stm": f[1], "cr": cr, "ep": ep}


def struct_to_fen(pos):
    pcs = "PNBRQKpnbrqk"
    rows = []
    for r in range(7, -1, -1):
        row, run = "", 0
        for f in range(8):
            c = pos["bd"][r * 8 + f]
            if c == 0:
                run += 1
            else:
                row += (str(run) if run else "") + (pcs[c - 1] if 1 <= c <= 12 else "?")
                run = 0
        rows.append(row + (str(run) if run else ""))
    ep = "-" if pos["ep"] < 0 else "abcdefgh"[pos["ep"] % 8] + str(pos["ep"] // 8 + 1)
    return "/".join(rows) + " " + pos["stm"] + " " + ("".join(pos["cr"]) or "-") + " " + ep


def load_fens(path):
    out = []
    for line in open(path):
        line = line.split("#")[0].strip()
        if line:
            out.append(" ".join(line.split()[:4]))
    return out


def write_seeds(fens, path):
    with open(path, "w") as f:
        for fen in fens:
            f.write(json.dumps({"fen": fen, "pos": fen_to_struct(fen)}) + "\n")
    return path


# --------------------------------------------------------------------------------------------
# evidence, findings, verdict
# --------------------------------------------------------------------------------------------
def load_known():
    p = os.path.join(VERIF, "known_findings.json")
    if os.path.exists(p):
        return json.load(open(p))
    return {"findings": [], "fixed": []}


class Result:
    """What a check found: coverage for the evidence file and concrete violations."""

    def __init__(self, prop, tier, seed):
        self.prop = prop
        self.tier = tier
        self.seed = seed
        self.coverage = {"states": 0, "transitions": 0, "traces_validated_against_impl": 0, "samples": []}
        self.assumptions = []
        self.violations = []   # dicts: {"sig": str, "what": str, "replay": payload}
        self.notes = []
        self.t0 = time.time()

    def add_tlc(self, res):
        self.coverage["states"] += res.distinct
        self.coverage["transitions"] += res.generated

    def violation(self, sig, what, replay):
        self.violations.append({"sig": sig, "what": what, "replay": replay})

    def sample(self, s):
        if len(self.coverage["samples"]) < 8:
            self.coverage["samples"].append(s)


def finish(result):
    """Write evidence, print KNOWN-FINDING / VIOLATION lines, return the exit code."""
    known = load_known()
    mine = [k for k in known.get("findings", []) if k.get("property") == result.prop]
    unknown = []
    seen_known = {}
    for v in result.violations:
        hit = None
        for k in mine:
            if re.search(k["match"], v["sig"]):
                hit = k
                break
        if hit is not None:
            seen_known.setdefault(hit["id"], (hit, v))
        else:
            unknown.append(v)
    for kid, (k, v) in seen_known.items():
        print("KNOWN-FINDING: property=%s %s" % (result.prop, k["what"]), flush=True)
    os.makedirs(os.path.join(OUT, result.prop), exist_ok=True)
    for old in os.listdir(os.path.join(OUT, result.prop)):
        if old.startswith("violation_%s_" % result.tier):
            os.unlink(os.path.join(OUT, result.prop, old))
    paths = []
    for i, v in enumerate(unknown[:10]):
        p = os.path.join(OUT, result.prop, "violation_%s_%d.json" % (result.tier, i))
        with open(p, "w") as f:
            json.dump({"property": result.prop, "sig": v["sig"], "what": v["what"], "replay": v["replay"]}, f, indent=1)
        paths.append(p)
        print("VIOLATION property=%s replay=%s" % (result.prop, p), flush=True)
        log("  " + v["what"][:600])
    cov = dict(result.coverage)
    if not cov.get("samples"):
        cov["samples"] = ["(no sample recorded)"]
    if int(cov.get("states", 0)) < 1 or int(cov.get("transitions", 0)) < 1:
        raise ToolError("no TLC states/transitions were counted for %s: the check did not run" % result.prop)
    ev = {
        "property_id": result.prop,
        "tier": result.tier,
        "seed": int(result.seed),
        "level": "model_checking",
        "coverage": cov,
        "assumptions": result.assumptions,
        "wall_s": round(time.time() - result.t0, 2),
        "violations": len(unknown),
        "known_findings_seen": sorted(seen_known.keys()),
        "notes": result.notes,
    }
    os.makedirs(EVID, exist_ok=True)
    with open(os.path.join(EVID, result.prop + ".json"), "w") as f:
        json.dump(ev, f, indent=1, sort_keys=True)
    return 1 if unknown else 0


# --------------------------------------------------------------------------------------------
# generic trace validation with diagnosis
# --------------------------------------------------------------------------------------------
def validate_trace(module, cfg, trace_path, is_reset, env=None, timeout=1200, max_rejections=5, xmx="2g"):
    """Validate an ndjson trace against spec/<module>.tla (acceptance by POSTCONDITION on the matched
    length).  On rejection the run is repeated with STUCK=<line> so that the Diag invariant prints the
    named sub-checks of the unmatched event, and validation continues after the next reset event so
    the rest of the trace is still examined.
    Returns (events_matched, [Tlc results], [rejections]); a rejection is
    {"stuck": line, "failed": [(property, subcheck)], "diag": text, "segment": events since last reset}"""
    results, rejections = [], []
    lines = open(trace_path).read().splitlines()
    offset = 0
    matched_total = 0
    cur = trace_path
    tmp = None
    while True:
        e = dict(env or {})
        e["TRACE"] = cur
        res = run_tlc(module, cfg, env=e, workers=1, deque=True, timeout=timeout, xmx=xmx)
        results.append(res)
        n_cur = len(lines) - offset
        if res.rejected_at is None:
            tlc_must_be_clean(res, "%s trace %s" % (module, os.path.basename(trace_path)))
            matched_total += n_cur
            break
        stuck = res.rejected_at               # 1-based index (in cur) of the first unmatched line
        if stuck > n_cur:
            raise ToolError("%s: rejected beyond the end of the trace" % module)
        matched_total += stuck - 1
        e["STUCK"] = stuck
        diag = run_tlc(module, cfg, env=e, workers=1, deque=True, timeout=timeout, xmx=xmx)
        text = " ".join(l.strip() for l in diag.out.splitlines())
        m = re.search(r'<<\s*"DIAG".*', text)
        dtext = m.group(0) if m else "(no diagnostic output)"
        dtext = re.split(r'Error:|<<"REJECTED"', dtext)[0]
        failed = re.findall(r"(C\d\d)_(\w+) \|-> FALSE", dtext)
        g = offset + stuck - 1                # 0-based global index of the stuck line
        j = g
        while j > 0 and not is_reset(json.loads(lines[j])):
            j -= 1
        segment = [json.loads(x) for x in lines[j:g + 1]]
        rejections.append({"stuck": g + 1, "failed": failed, "diag": dtext[:2000], "segment": segment,
                           "event": json.loads(lines[g])})
        k = g + 1
        while k < len(lines) and not is_reset(json.loads(lines[k])):
            k += 1
        if k >= len(lines) or len(rejections) >= max_rejections:
            break
        offset = k
        tmp = trace_path + ".rest"
        with open(tmp, "w") as f:
            f.write("\n".join(lines[k:]) + "\n")
        cur = tmp
    if tmp and os.path.exists(tmp):
        os.unlink(tmp)
    return matched_total, results, rejections


def run_harness(exe, args, stdin_path=None, stdout_path=None, timeout=3600):
    """run a harness subcommand; returns stdout lines (when not redirected)"""
    fin = open(stdin_path) if stdin_path else subprocess.DEVNULL
    fout = open(stdout_path, "w") if stdout_path else subprocess.PIPE
    try:
        r = subprocess.run([exe] + [str(a) for a in args], stdin=fin, stdout=fout, stderr=subprocess.PIPE, text=True, timeout=timeout)
    except subprocess.TimeoutExpired:
        raise ToolError("harness %s timed out" % args[0])
    finally:
        if stdin_path:
            fin.close()
        if stdout_path:
            fout.close()
    if r.returncode != 0:
        raise ToolError("harness %s failed (rc=%d): %s" % (args[0], r.returncode, (r.stderr or "")[-1500:]))
    return [] if stdout_path else r.stdout.splitlines()


def split_replay_output(lines):
    mism, summary = [], None
    for l in lines:
        v = json.loads(l)
        if v.get("k") == "MISMATCH":
            mism.append(v)
        elif v.get("k") == "SUMMARY":
            summary = v
    if summary is None:
        raise ToolError("harness produced no summary")
    return mism, summary


def workdir(prefix):
    import tempfile
    os.makedirs(BUILD, exist_ok=True)
    return tempfile.mkdtemp(prefix=prefix + "_", dir=BUILD)
