"""Killer moves, history heuristic, repetition stack: Heur.tla model-checked, and random operation
histories of the real containers validated by TLC (HeurTrace.tla).  Not listed properties on their own:
a mismatch is SPEC-DRIFT (recorded, no verdict)."""
import os

import vlib
from vlib import ToolError, log


def run(R, exe, work, seed, ops=3000, shards=4):
    mc = vlib.run_tlc("Heur", "Heur.cfg", workers=4, timeout=900, xmx="3g")
    if not mc.clean:
        raise ToolError("Heur.tla does not satisfy its own invariants: %s" % "; ".join(mc.errors[:2]))
    R.add_tlc(mc)

    def one(i):
        tp = os.path.join(work, "heur_%d.ndjson" % i)
        vlib.run_harness(exe, ["heur-record", "--seed", seed * 31 + i, "--ops", ops, "--out", tp])
        return tp, vlib.validate_trace("HeurTrace", "HeurTrace.cfg", tp, lambda e: e.get("op") == "reset", timeout=1800, max_rejections=2)
    events, drift = 0, []
    for tp, (matched, results, rej) in vlib.parallel(one, range(shards)):
        events += matched
        for r in results:
            R.add_tlc(r)
        for rj in rej:
            drift.append({"event": rj["event"], "diag": rj["diag"][:600]})
    out = {"model": {"distinct_states": mc.distinct}, "operations_validated": events, "spec_drift": drift[:3]}
    if drift:
        R.notes.append("SPEC-DRIFT (no verdict): killer/history/repetition containers deviate from Heur.tla: %s" % str(drift[0])[:800])
        log("[%s] SPEC-DRIFT: Heur containers: %s" % (R.prop, str(drift[0])[:400]))
    else:
        log("[%s] killer / history / repetition containers: %d operations of the real code validated against Heur.tla" % (R.prop, events))
    return out
