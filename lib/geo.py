"""C10 - attack and line tables are exact.  Decided exhaustively.

The specification (Geometry.tla) prints, per piece and square, the sorted list of ray squares; the
harness asks the engine's LookupTable for EVERY subset of those squares (rook 64 x 2^14, bishop
sum 2^|rays|), encodes each answer as a bit mask over the ray list (+ count of answer bits off the
rays) and dumps the knight/king tables and the segment/line tables for all 64x64 pairs.  TLC
validates every answer against the ray-walk definitions (GeoTrace.tla).  The engine's pre-mask is
dumped too and must lie on the rays, hence bits off the rays cannot matter; additionally sampled with
random 64-bit occupancies (also for the queen).
"""
import json
import os
import shutil

import bits
import vlib
from vlib import ToolError, log

TIERS = {"quick": dict(noise=4000, prims=120), "thorough": dict(noise=200000, prims=1500)}
SHARDS = 16


def _run(tier, seed, R):
    T = TIERS[tier]
    exe = vlib.build_harness()
    work = vlib.workdir("geo")
    try:
        rays = os.path.join(work, "rays.ndjson")
        res = vlib.run_tlc("GeoTrace", "GeoTrace.cfg", env={"GEOMODE": "emit"}, workers=1, emit_to=rays, timeout=300)
        vlib.tlc_must_be_clean(res, "Geometry emit (incl. GeoSane)")
        n_rays = sum(1 for _ in open(rays))
        if n_rays != 3 * 64:
            raise ToolError("expected 192 ray records, got %d" % n_rays)

        def shard(i):
            p = os.path.join(work, "geo_%d.ndjson" % i)
            vlib.run_harness(exe, ["geo-dump", "--rays", rays, "--noise", T["noise"], "--seed", seed, "--part", "%d/%d" % (i, SHARDS)],
                             stdout_path=p)
            counts = {}
            lookups = 0
            for l in open(p):
                e = json.loads(l)
                counts[e["ev"]] = counts.get(e["ev"], 0) + 1
                if e["ev"] == "slider":
                    lookups += len(e["ans"])
            return p, counts, lookups, vlib.validate_trace("GeoTrace", "GeoTrace.cfg", p, lambda e: True, xmx="4g", timeout=1800)
        tot = {}
        lookups = 0
        events = 0
        for p, counts, lk, (matched, results, rej) in vlib.parallel(shard, range(SHARDS)):
            lookups += lk
            events += matched
            for k, v in counts.items():
                tot[k] = tot.get(k, 0) + v
            for r in results:
                R.add_tlc(r)
            for rj in rej:
                names = rj["failed"] or [("C10", "no_action_allows_" + rj["event"].get("ev", "?"))]
                ev = {k: v for k, v in rj["event"].items() if k in ("ev", "pc", "sq", "where")}
                R.violation("C10:%s:%s" % (names[0][1], json.dumps(ev)),
                            "C10 [table dump] TLC rejects %s: failed sub-checks %s; %s" % (json.dumps(ev), names, rj["diag"][:600]),
                            {"kind": "geo", "event": ev})
        if tot.get("slider", 0) != 128 or tot.get("leaper", 0) != 64 or tot.get("pairs", 0) != 64:
            if not R.violations:
                raise ToolError("incomplete table dump: %s" % tot)
        R.coverage["traces_validated_against_impl"] = SHARDS
        R.coverage["exhaustive"] = True
        R.coverage["events"] = tot
        R.coverage["events_matched"] = events
        R.coverage["slider_lookups_checked (every subset of every square's rays)"] = lookups
        R.coverage["pair_entries_checked"] = 2 * 64 * 64
        R.coverage["primitives (Bitboard.tla, drift only)"] = bits.run(R, exe, work, seed, n=T["prims"])
        first = json.loads(open(os.path.join(work, "geo_1.ndjson")).readline())
        first["ans"] = first.get("ans", [])[:8] + ["..."]
        R.sample(first)
        log("[geo] %d events, %d slider look-ups, %d rejections" % (events, lookups, len(R.violations)))
    finally:
        shutil.rmtree(work, ignore_errors=True)


def run(prop, tier, seed):
    R = vlib.Result(prop, tier, seed)
    _run(tier, seed, R)
    R.assumptions = ["TLC/SANY/CommunityModules", "Geometry.tla ray walks are the definition of the attack sets (GeoSane checked)",
                     "occupancy bits off a square's rays cannot influence the answer because the engine's pre-mask lies on the rays "
                     "(checked) - additionally sampled with random 64-bit occupancies"]
    return R


def replay(prop, payload):
    # the table dump is exhaustive and takes seconds: a replay is a full re-run on the current tree
    R = vlib.Result(prop, "quick", 0)
    _run("quick", 1, R)
    return R
