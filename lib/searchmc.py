"""Model checking of Search.tla (PlusCal transcription of the search) on small abstract game graphs.

A violated invariant here is a statement about the DESIGN as modelled, not about a recorded execution
of the real code: it is reported as a tool error (exit 2, investigate), never as VIOLATION.  The
verdict on the real code comes from the conformance checks.
"""
import vlib
from vlib import ToolError, log

CONFIGS = {
    "quick": {"C05": ["q_c05", "q_c05_d3"],
              "C06": ["q_c06", "q_c06_budget"],
              "C07": ["q_c06", "q_c06_budget"],
              "C08": ["q_c08_mate1_d1", "q_c08_mate1_d2", "q_c08_mate1_d3", "q_c08_def_d2", "q_c08_def_d3"],
              "C09": ["q_c09_rep_d2", "q_c09_rep_d3"]},
    "thorough": {"C05": ["q_c05", "q_c05_d3", "t_c05", "t_c05_d3"],
                 "C06": ["q_c06", "q_c06_budget", "t_c06", "t_c06_two"],
                 "C07": ["q_c06", "q_c06_budget", "t_c06", "live"],      # live: FairSpec => every go answered, an expired search ends
                 "C08": ["q_c08_mate1_d1", "q_c08_mate1_d2", "q_c08_mate1_d3", "q_c08_def_d2", "q_c08_def_d3", "t_c08_def_d3"],
                 "C09": ["q_c09_rep_d2", "q_c09_rep_d3"]},
}


# Random family (RandGraph.tla -> SearchRand.tla): seeds per tier and property.  (D, Aborts): D = 3 without interruption
# for the value / mate / repetition invariants, D = 2 with one interruptible search first (free-running clock) for C06 / C07.
RANDOM = {
    "quick": {"C05": ([3, 5], 3, 0), "C06": ([6, 19, 9], 2, 1), "C07": ([20, 2], 2, 1), "C08": ([2, 6, 12], 3, 0), "C09": ([7, 11], 3, 0)},
    "thorough": {"C05": (list(range(1, 41)), 3, 0), "C06": (list(range(1, 31)), 2, 1), "C07": (list(range(31, 41)), 2, 1),
                 "C08": ([2, 3, 4, 5, 6, 9, 11, 12, 15, 24, 51, 54, 60], 3, 0), "C09": ([3, 7, 11, 15, 19, 23, 27, 31, 35, 39], 3, 0)},
}


def run_random(prop, tier, R, seed):
    """Search.tla on graphs of the pseudo-random family: one exhaustive TLC run per graph."""
    import json
    import os
    seeds, depth, aborts = RANDOM[tier][prop]
    if tier == "thorough":
        seeds = seeds + [1000 + 17 * seed + k for k in range(4)]        # a few graphs that depend on VERIF_SEED
    work = vlib.workdir("randgraph_" + prop)
    per = 4 if tier == "quick" else 4

    def one(gs):
        g = vlib.run_tlc("RandGraph", "RandGraph.cfg", env={"GSEED": gs}, workers=1, timeout=300)
        vlib.tlc_must_be_clean(g, "RandGraph %d" % gs)
        if not g.emitted:
            raise ToolError("RandGraph.tla printed no graph for seed %d" % gs)
        gp = os.path.join(work, "g%d.json" % gs)
        json.dump(g.emitted[0], open(gp, "w"))
        r = vlib.run_tlc("SearchRand", "SearchRand.cfg", env={"GRAPH": gp, "GD": depth, "GABORTS": aborts, "GBUDGET": 0},
                         workers=per, xmx="6g", timeout=3600)
        return gs, g.emitted[0], r
    out = {"graphs": 0, "distinct_states": 0, "depth": depth, "interruptible_searches_first": aborts, "seeds": seeds,
           "with_mate_in_one": 0, "with_avoidable_mate": 0, "with_repeated_history": 0}
    try:
        for gs, gr, r in vlib.parallel(one, seeds, workers=max(1, vlib.NCPU // per)):
            if not r.clean:
                log(r.out[-3000:])
                raise ToolError("Search.tla: random graph %d (D=%d, Aborts=%d) does not satisfy its invariants (%s) - the design model "
                                "and the code have to be re-examined" % (gs, depth, aborts, "; ".join(r.errors[:2])))
            R.add_tlc(r)
            mv, chk, h = gr["moves"], gr["chk"], gr["hist"]
            mated = lambda q: not mv[q - 1] and chk[q - 1]
            m1 = [c for c in mv[0] if mated(c)]
            al = [c for c in mv[0] if any(mated(x) for x in mv[c - 1])]
            out["graphs"] += 1
            out["distinct_states"] += r.distinct
            out["with_mate_in_one"] += bool(m1)
            out["with_avoidable_mate"] += bool(not m1 and al and len(al) < len(mv[0]))
            out["with_repeated_history"] += bool([q for q in set(h) if h.count(q) >= 2])
    finally:
        import shutil
        shutil.rmtree(work, ignore_errors=True)
    R.coverage["search_model_random_graphs"] = out
    log("[%s] Search.tla on %d pseudo-random game graphs (D=%d, %d interruptible searches first): %d distinct states, all invariants hold"
        % (prop, out["graphs"], depth, aborts, out["distinct_states"]))


def run(prop, tier, R, regression=False, seed=1):
    run_random(prop, tier, R, seed)
    out = {}
    for c in CONFIGS[tier][prop]:
        r = vlib.run_tlc("Search", "Search_%s.cfg" % c, workers=vlib.NCPU, xmx="14g", timeout=7200)
        if not r.clean:
            log(r.out[-3000:])
            raise ToolError("Search.tla: model %s does not satisfy its invariants (%s) - the design model and the code have to be re-examined"
                            % (c, "; ".join(r.errors[:2])))
        R.add_tlc(r)
        out[c] = {"distinct_states": r.distinct, "states_generated": r.generated, "wall_s": round(r.wall, 1)}
    if regression:
        # the model of the code BEFORE the C06 repair must still be rejected by TLC (guards the spec against vacuity)
        r = vlib.run_tlc("Search", "Search_regress_store_on_abort.cfg", workers=vlib.NCPU, xmx="14g", timeout=3600)
        bad = [e for e in r.errors if "Invariant" in e]
        if not bad:
            raise ToolError("vacuity: Search.tla with StoreOnAbort = TRUE no longer violates TTSound")
        out["regress_store_on_abort"] = {"violates": bad[0], "states_to_counterexample": r.distinct}
    R.coverage["search_model"] = out
    log("[%s] Search.tla model checked: %s" % (prop, {k: v.get("distinct_states", "violation found") for k, v in out.items()}))
