"""Model checking of Search.tla (PlusCal transcription of the search) on small abstract game graphs.

A violated invariant here is a statement about the DESIGN as modelled, not about a recorded execution
of the real code: it is reported as a tool error (exit 2, investigate), never as VIOLATION.  The
verdict on the real code comes from the conformance checks.
"""
import vlib
from vlib import ToolError, log

CONFIGS = {
    "quick": {"C05": ["q_c05", "q_c05_d3"],
              "C06": ["q_c06", "q_c06_budget"],
              "C07": ["q_c06", "q_c06_budget"],
              "C08": ["q_c08_mate1_d1", "q_c08_mate1_d2", "q_c08_mate1_d3", "q_c08_def_d2", "q_c08_def_d3"],
              "C09": ["q_c09_rep_d2", "q_c09_rep_d3"]},
    "thorough": {"C05": ["q_c05", "q_c05_d3", "t_c05", "t_c05_d3"],
                 "C06": ["q_c06", "q_c06_budget", "t_c06", "t_c06_two"],
                 "C07": ["q_c06", "q_c06_budget", "t_c06"],
                 "C08": ["q_c08_mate1_d1", "q_c08_mate1_d2", "q_c08_mate1_d3", "q_c08_def_d2", "q_c08_def_d3", "t_c08_def_d3"],
                 "C09": ["q_c09_rep_d2", "q_c09_rep_d3"]},
}


def run(prop, tier, R, regression=False):
    out = {}
    for c in CONFIGS[tier][prop]:
        r = vlib.run_tlc("Search", "Search_%s.cfg" % c, workers=vlib.NCPU, xmx="14g", timeout=7200)
        if not r.clean:
            log(r.out[-3000:])
            raise ToolError("Search.tla: model %s does not satisfy its invariants (%s) - the design model and the code have to be re-examined"
                            % (c, "; ".join(r.errors[:2])))
        R.add_tlc(r)
        out[c] = {"distinct_states": r.distinct, "states_generated": r.generated, "wall_s": round(r.wall, 1)}
    if regression:
        # the model of the code BEFORE the C06 repair must still be rejected by TLC (guards the spec against vacuity)
        r = vlib.run_tlc("Search", "Search_regress_store_on_abort.cfg", workers=vlib.NCPU, xmx="14g", timeout=3600)
        bad = [e for e in r.errors if "Invariant" in e]
        if not bad:
            raise ToolError("vacuity: Search.tla with StoreOnAbort = TRUE no longer violates TTSound")
        out["regress_store_on_abort"] = {"violates": bad[0], "states_to_counterexample": r.distinct}
    R.coverage["search_model"] = out
    log("[%s] Search.tla model checked: %s" % (prop, {k: v.get("distinct_states", "violation found") for k, v in out.items()}))
