"""The go-command parser as a whole: GoParse.tla (token-by-token transcription of handle_go_command /
calculate_move_time) against what the real parser hands to the search (hook verif_go_budget).

TLC -simulate over GoParse.tla draws random token lines (known words, numbers at the type boundaries, junk,
truncated lines); the hooked handler parses them; TLC (GoParseTrace.tla) compares (depth, limit) with the
model.  A different answer is SPEC-DRIFT (no verdict); a panic of the parser is reported under C16."""
import json
import os

import vlib
from vlib import ToolError, log

SIDE = {"w": "position startpos", "b": "position startpos moves e2e4"}


def run(R, exe, work, seed, num, shards=4):
    def one(i):
        emit = os.path.join(work, "goparse_gen_%d.ndjson" % i)
        r = vlib.run_tlc("GoParse", "GoParseGen.cfg", workers=1, simulate=max(1, num // 60), depth=60, seed=seed * 211 + i, emit_to=emit, timeout=1200)
        vlib.tlc_must_be_clean(r, "GoParse generator")
        lines = [json.loads(l) for l in open(emit)]
        src = os.path.join(work, "goparse_in_%d.ndjson" % i)
        order = []
        with open(src, "w") as f:
            for stm in ("w", "b"):
                grp = [g for g in lines if g["stm"] == stm]
                if not grp:
                    continue
                f.write(json.dumps({"k": "side", "stm": stm, "text": SIDE[stm]}) + "\n")
                order.append(None)
                for g in grp:
                    f.write(json.dumps({"k": "go", "text": g["text"], "stm": g["stm"], "go": g["go"]}) + "\n")
                    order.append(g)
        raw = os.path.join(work, "goparse_raw_%d.ndjson" % i)
        vlib.run_harness(exe, ["uci-budgets", "--in", src, "--out", raw])
        tp = os.path.join(work, "goparse_trace_%d.ndjson" % i)
        evs = [json.loads(l) for l in open(raw)]
        if len(evs) != len(order):
            raise ToolError("uci-budgets answered %d events for %d lines" % (len(evs), len(order)))
        with open(tp, "w") as f:
            for e, g in zip(evs, order):
                if g is not None:
                    e["toks"] = g["toks"]
                f.write(json.dumps(e) + "\n")
        return r, len(lines), vlib.validate_trace("GoParseTrace", "GoParseTrace.cfg", tp, lambda e: e["ev"] == "side", timeout=1800, max_rejections=3)
    n = 0
    drift, panics = [], []
    for r, k, (matched, results, rej) in vlib.parallel(one, range(shards)):
        R.coverage["transitions"] += r.generated
        n += k
        for x in results:
            R.add_tlc(x)
            for pr in x.prints:
                if '"DRIFT"' in pr and len(drift) < 5:
                    drift.append(pr[:300])
        for rj in rej:
            panics.append(rj)
    out = {"go_lines": n, "spec_drift": drift}
    if drift:
        R.notes.append("SPEC-DRIFT (no verdict): the go parser answers differently from GoParse.tla, e.g. %s" % drift[0])
    log("[%s] go parser: %d random token lines compared with GoParse.tla, %d drift, %d parser failures" % (R.prop, n, len(drift), len(panics)))
    return out, panics
