"""C12 - thinking time comes from the mover's own clock and fits in it.

TimeCtl.tla enumerates (TLC, exhaustively over a grid of boundary values) every go command with the
four clock tokens: both sides to move, all values, token orders.  The hooked handler reports the
budget the REAL parser hands to the search; TLC validates FitsClock and OwnClockOnly on every event
(TimeTrace.tla).  The formula itself is not pinned.
"""
import json
import os
import shutil

import vlib
from vlib import ToolError, log

TIERS = {"quick": dict(cfg="TimeCtlQuick.cfg", shards=16, rnd=40), "thorough": dict(cfg="TimeCtlFull.cfg", shards=16, rnd=1500)}
SIDE = {"w": "position startpos", "b": "position startpos moves e2e4"}


def _validate(exe, work, lines, tag):
    """lines: go records (dicts) - grouped by side, each group preceded by the real position command"""
    src = os.path.join(work, "go_%s.ndjson" % tag)
    with open(src, "w") as f:
        for stm in ("w", "b"):
            grp = [g for g in lines if g["stm"] == stm]
            if not grp:
                continue
            f.write(json.dumps({"k": "side", "stm": stm, "text": SIDE[stm]}) + "\n")
            for g in grp:
                f.write(json.dumps(g) + "\n")
    tp = os.path.join(work, "budget_%s.ndjson" % tag)
    vlib.run_harness(exe, ["uci-budgets", "--in", src, "--out", tp])
    return tp, vlib.validate_trace("TimeTrace", "TimeTrace.cfg", tp, lambda e: e["ev"] == "side", timeout=3000, xmx="3g", max_rejections=8)


def _collect(R, tp, matched, results, rej):
    for r in results:
        R.add_tlc(r)
    for rj in rej:
        names = rj["failed"]
        if any(n[0].startswith("H") for n in names):
            raise ToolError("harness could not set the side to move: %s" % rj["diag"][:300])
        if not names:
            names = [("C12", "no_action_allows_" + rj["event"].get("ev", "?"))]
        e = rj["event"]
        R.violation("C12:%s:%s:%s" % (names[0][1], e.get("stm"), e.get("text")),
                    "C12 [budget trace, sub-check %s] side to move %s, '%s' -> budget %s ms (own clock %s, own increment %s); %s" % (
                        [n[1] for n in names], e.get("stm"), e.get("text"), e.get("budget"),
                        e.get("go", {}).get("wtime" if e.get("stm") == "w" else "btime"),
                        e.get("go", {}).get("winc" if e.get("stm") == "w" else "binc"), rj["diag"][:300]),
                    {"kind": "go", "lines": [{"k": "go", "text": x["text"], "stm": x["stm"], "go": x["go"]} for x in rj["segment"] if x.get("ev") == "go"][-50:]})


def apalache_all_naturals(R):
    """the transcribed allocation formula meets the C12 relation for ALL naturals (symbolic, Apalache); the formula
    from before the repair must be refuted (guards against a vacuous encoding)"""
    import subprocess
    out = os.path.join(vlib.BUILD, "apalache")
    res = {}
    for inv, want_ok in (("Fits", True), ("OldFits", False)):
        try:
            r = subprocess.run(["apalache-mc", "check", "--length=0", "--inv=" + inv, "--out-dir=" + out, "TimeCtlAll.tla"],
                               cwd=os.path.join(vlib.SPEC, "proofs"), stdout=subprocess.PIPE, stderr=subprocess.STDOUT, text=True, timeout=600)
        except (subprocess.TimeoutExpired, FileNotFoundError) as e:
            raise ToolError("apalache-mc failed: %s" % e)
        ok = "EXITCODE: OK" in r.stdout
        if ok != want_ok:
            raise ToolError("Apalache: %s is %s for all naturals, expected %s: %s" % (inv, ok, want_ok, r.stdout[-600:]))
        res[inv] = "holds for all naturals" if ok else "refuted (counterexample found)"
    shutil.rmtree(out, ignore_errors=True)
    R.coverage["formula_all_naturals_apalache"] = res


def run(prop, tier, seed):
    T = TIERS[tier]
    R = vlib.Result(prop, tier, seed)
    apalache_all_naturals(R)
    exe = vlib.build_harness()
    work = vlib.workdir("time")
    try:
        emit = os.path.join(work, "go.ndjson")
        res = vlib.run_tlc("TimeCtl", T["cfg"], workers=vlib.NCPU, emit_to=emit, xmx="8g", timeout=1800)
        vlib.tlc_must_be_clean(res, "TimeCtl")
        R.add_tlc(res)
        lines = [json.loads(l) for l in open(emit)]
        if len(lines) != res.distinct:  # (grid only; random lines are added below)
            raise ToolError("TimeCtl emitted %d lines for %d states" % (len(lines), res.distinct))
        # random go commands beyond the grid (TLC -simulate over the same module): clocks of several magnitudes,
        # increments anywhere between 0 and twice the clock
        remit = os.path.join(work, "go_random.ndjson")
        rres = vlib.run_tlc("TimeCtl", "TimeCtlRandom.cfg", workers=1, simulate=T["rnd"], depth=120, seed=seed * 7 + 1, emit_to=remit, timeout=1800)
        vlib.tlc_must_be_clean(rres, "TimeCtl random")
        rlines = [json.loads(l) for l in open(remit)]
        R.coverage["transitions"] += rres.generated
        lines += rlines
        # shard so that all commands with the same own-clock key land in the same shard (the memo is per trace)
        def key(g):
            import zlib
            return zlib.crc32(repr((g["stm"], g["go"]["wtime"] if g["stm"] == "w" else g["go"]["btime"],
                                    g["go"]["winc"] if g["stm"] == "w" else g["go"]["binc"])).encode())
        shards = [[] for _ in range(T["shards"])]
        for g in lines:
            shards[key(g) % T["shards"]].append(g)
        events = 0
        memo = 0
        drift = []
        outs = vlib.parallel(lambda i: _validate(exe, work, shards[i], str(i)) if shards[i] else None, range(T["shards"]))
        for o in outs:
            if o is None:
                continue
            tp, (matched, results, rej) = o
            events += matched
            for r in results:
                for pr in r.prints:
                    if '"MEMO"' in pr:
                        memo += int(pr.split(",")[1].strip(" >"))
                    if '"DRIFT"' in pr and len(drift) < 5:
                        drift.append(pr[:200])
            _collect(R, tp, matched, results, rej)
            if len(R.coverage["samples"]) < 2:
                R.sample(json.loads(open(tp).read().splitlines()[1]))
        R.coverage["traces_validated_against_impl"] = T["shards"]
        R.coverage["go_lines"] = len(lines)
        R.coverage["random_go_lines_beyond_the_grid"] = len(rlines)
        R.coverage["exhaustive"] = True
        R.coverage["grid"] = T["cfg"]
        R.coverage["events_matched"] = events
        R.coverage["token_subsets"] = "every non-empty subset of the four tokens in the listed orders (absent = 0)"
        R.coverage["formula_transcription"] = {"model": "min((max(own-5000,0) div 25) + inc, own div 2)", "spec_drift": drift,
                                               "model_satisfies_relation_on_grid": True}
        if drift:
            R.notes.append("SPEC-DRIFT (no verdict): the budget differs from the transcribed formula, e.g. %s" % drift[0])
        R.coverage["distinct_(side, own time, own increment, budget)_observations"] = memo
        log("[time] %d go lines, %d events matched, %d violations" % (len(lines), events, len(R.violations)))
    finally:
        shutil.rmtree(work, ignore_errors=True)
    R.assumptions = ["TLC/SANY/CommunityModules", "exhaustive over the stated grid of boundary values x token orders x both sides; "
                     "other values are not explored", "budget observed where the real go parser hands it to find_best_move (hook)"]
    return R


def replay(prop, payload):
    exe = vlib.build_harness()
    R = vlib.Result(prop, "quick", 0)
    work = vlib.workdir("timereplay")
    try:
        tp, (matched, results, rej) = _validate(exe, work, payload["lines"], "replay")
        _collect(R, tp, matched, results, rej)
        R.coverage["traces_validated_against_impl"] = 1
        R.sample(payload["lines"][-1])
    finally:
        shutil.rmtree(work, ignore_errors=True)
    return R
