"""C05 / C06 - the search value (pruning, ordering, caching, interruption) against the specification.

  MC   Search.tla (PlusCal transcription of find_best_move / negamax / search_until_quiet with a
       free-running clock process) is model-checked on small abstract game graphs: ResultIsMinimax,
       TTSound, after <= bound, history restored - see lib/searchmc.py.
  I->S For real positions with a finite quiescence tree the harness dumps the game graph and what the
       real search concluded (score, move, EVERY cached entry; for C06 after an interruption at every
       node count k followed by a completed search).  TLC computes the reference (unpruned quiescence
       value, minimax) from the graph alone, optionally validates the graph against ChessRules, and
       audits every result and every cached claim (SearchAudit.tla).
"""
import json
import os
import shutil

import heur
import searchmc
import steps
import vlib
from vlib import ToolError, log

TIERS = {
    "quick": {"C05": dict(shards=16, positions=5, depth=3, validate=1, cap=30000, max_men=7, fixed=4, win_positions=400, win_depth=3,
                     bell_positions=25, bell_kpk=500, bell_depth=4, bell_special=1),
              "C06": dict(shards=16, positions=2, depth=3, validate=0, cap=6000, max_men=6, kstep=1)},
    "thorough": {"C05": dict(shards=16, positions=150, depth=3, validate=6, cap=60000, max_men=8, fixed=5, win_positions=4000, win_depth=4, bell_positions=400, bell_kpk=6000, bell_depth=4, bell_special=8,
                         steps=dict(cases=96, depth=3, heur_ops=20000)),
                 "C06": dict(shards=16, positions=40, depth=3, validate=0, cap=12000, max_men=7, kstep=1, aeq_positions=250, aeq_samples=200,
                             steps=dict(cases=96, depth=3, two=True))},
}


def _args(prop, T, seed, i, out, fens=None):
    a = ["search-dump", "--seed", seed * 977 + i, "--positions", T["positions"], "--depth", T["depth"], "--mode",
         "c06" if prop == "C06" else "c05", "--cap", T["cap"], "--max-men", T["max_men"], "--validate-graphs", T["validate"],
         "--kstep", T.get("kstep", 1), "--fixed-depth", T.get("fixed", 0), "--out", out]
    if fens:
        a += ["--fens", fens]
    return a


def _audit(prop, exe, work, args, tag, R):
    tp = args[args.index("--out") + 1]
    vlib.run_harness(exe, args, stdout_path=os.path.join(work, "engine_stdout_%s.txt" % tag), timeout=7200)
    stats = {"positions": 0, "nodes": 0, "claims": 0, "results": 0, "abort_runs": 0, "validated_graphs": 0, "searches": 0,
             "tried": 0, "skipped_infinite": 0, "excluded_deeper": 0}
    for l in open(tp):
        e = json.loads(l)
        stats["positions"] += 1
        stats["nodes"] += e["g"]["n"]
        stats["validated_graphs"] += 1 if e["validated"] else 0
        stats["tried"] = max(stats["tried"], e["tried"])
        stats["skipped_infinite"] = max(stats["skipped_infinite"], e["skipped_infinite"])
        for f in e["fresh"]:
            stats["searches"] += 1
            stats["claims"] += len(f.get("entries", []))
            if f.get("fixed"):
                stats["fixed_depth_searches"] = stats.get("fixed_depth_searches", 0) + 1
                if f.get("deeper", 0) > 0:
                    stats["fixed_depth_searches_excluded_deeper_entry_reused"] = stats.get("fixed_depth_searches_excluded_deeper_entry_reused", 0) + 1
        if "abort" in e:
            stats["claims"] += len(e["abort"]["claims"])
            stats["results"] += len(e["abort"]["results"])
            stats["abort_runs"] += e["abort"]["runs"]
            stats["excluded_deeper"] += e["abort"]["runs_excluded_deeper_hit"]
    matched, results, rej = vlib.validate_trace("SearchAudit", "SearchAudit.cfg", tp, lambda e: True, xmx="6g", timeout=7200, max_rejections=6)
    for r in results:
        R.add_tlc(r)
    for rj in rej:
        names = rj["failed"]
        if not names:
            raise ToolError("SearchAudit rejected an event without a failed sub-check: %s" % rj["diag"][:400])
        if any(n[0].startswith("H") for n in names):
            raise ToolError("dumped graph is not the game graph of the position / claim outside the graph: %s" % rj["diag"][:600])
        mine = [n for n in names if n[0] == prop]
        e = rj["event"]
        if not mine:
            R.notes.append("sub-check of another property failed at %s: %s" % (e["rootfen"], names))
            continue
        import re
        wit = re.search(r"\[root_minimax.*", rj["diag"])
        R.violation("%s:%s:%s:d%d" % (prop, mine[0][1], e["rootfen"], e["d"]),
                    "%s [graph audit, sub-checks %s] position '%s' depth %d: %s" % (
                        prop, [n[1] for n in mine], e["rootfen"], e["d"], (wit.group(0) if wit else rj["diag"])[:900]),
                    {"kind": "position", "fen": e["rootfen"], "depth": e["d"]})
    return matched, stats


def _windows(exe, work, args, tag, R):
    """C05 on arbitrary positions: the alpha-beta contract at the root (WindowTrace.tla)"""
    tp = args[args.index("--out") + 1]
    vlib.run_harness(exe, args, stdout_path=os.path.join(work, "wstdout_%s.txt" % tag), timeout=7200)
    n = sum(1 for _ in open(tp))
    if n == 0:
        return 0, 0
    probes = sum(len(json.loads(l).get("probes", [])) for l in open(tp))
    excl = max([json.loads(l).get("excluded_deeper_entry_reused", 0) for l in open(tp)] or [0])
    R.coverage["alpha_beta_probes_excluded_deeper_entry_reused"] = R.coverage.get("alpha_beta_probes_excluded_deeper_entry_reused", 0) + excl
    matched, results, rej = vlib.validate_trace("WindowTrace", "WindowTrace.cfg", tp, lambda e: True, timeout=7200, max_rejections=4)
    for r in results:
        R.add_tlc(r)
    for rj in rej:
        names = rj["failed"] or [("C05", "no_action")]
        e = rj["event"]
        R.violation("C05:%s:%s:d%s" % (names[0][1], e.get("fen"), e.get("d")),
                    "C05 [alpha-beta contract at the root] position '%s' depth %s: a search window changes the value; %s" % (e.get("fen"), e.get("d"), rj["diag"][-500:]),
                    {"kind": "window", "fen": e.get("fen"), "depth": e.get("d")})
    return matched, probes


def _bellman(exe, work, args, tag, R):
    """C05 on arbitrary positions: the minimax recursion V(p,d) = max -V(p.m,d-1) over separate fresh searches (BellmanTrace.tla)"""
    tp = args[args.index("--out") + 1]
    vlib.run_harness(exe, args, stdout_path=os.path.join(work, "bstdout_%s.txt" % tag), timeout=7200)
    n = sum(1 for _ in open(tp))
    if n == 0:
        return 0, 0
    kids = sum(len(json.loads(l).get("kids", [])) for l in open(tp))
    R.coverage["minimax_recursion_roots_also_through_find_best_move"] = R.coverage.get("minimax_recursion_roots_also_through_find_best_move", 0) + \
        sum(1 for l in open(tp) if '"pub"' in l)
    matched, results, rej = vlib.validate_trace("BellmanTrace", "BellmanTrace.cfg", tp, lambda e: True, timeout=7200, max_rejections=4)
    for r in results:
        R.add_tlc(r)
        for pr in r.prints:
            if "SKIPPED-NOT-JUDGED" in pr:
                R.coverage["minimax_recursion_events_not_judged"] = R.coverage.get("minimax_recursion_events_not_judged", 0) + int(pr.strip("<> ").split(",")[1])
    for rj in rej:
        names = rj["failed"] or [("C05", "no_action")]
        e = rj["event"]
        R.violation("C05:%s:%s:d%s" % (names[0][1], e.get("fen"), e.get("d")),
                    "C05 [minimax recursion] position '%s' depth %s: a fresh engine reports %s with move %s, but the separate fresh searches of its "
                    "successors at depth %s say otherwise; %s" % (e.get("fen"), e.get("d"), e.get("v"), e.get("move"), (e.get("d") or 1) - 1, rj["diag"][-500:]),
                    {"kind": "bellman", "fen": e.get("fen"), "depth": e.get("d")})
    return matched, kids


def _aborteq(exe, work, args, tag, R):
    """C06 on arbitrary positions: interrupted search, then a completed one on the same Searcher = what a fresh engine reports"""
    tp = args[args.index("--out") + 1]
    vlib.run_harness(exe, args, stdout_path=os.path.join(work, "aestdout_%s.txt" % tag), timeout=7200)
    evs = [json.loads(l) for l in open(tp)]
    if not evs:
        return 0, 0
    runs = sum(len(e.get("runs", [])) for e in evs)
    matched, results, rej = vlib.validate_trace("BellmanTrace", "BellmanTrace.cfg", tp, lambda e: True, timeout=7200, max_rejections=4)
    for r in results:
        R.add_tlc(r)
    for rj in rej:
        names = rj["failed"] or [("C06", "no_action")]
        e = rj["event"]
        R.violation("C06:%s:%s:d%s" % (names[0][1], e.get("fen"), e.get("d")),
                    "C06 [interrupted, then completed search vs fresh engine; sub-checks %s] position '%s' depth %s: fresh engine %s; %s" % (
                        [n[1] for n in names], e.get("fen"), e.get("d"), e.get("fresh"), rj["diag"][-500:]),
                    {"kind": "aborteq", "fen": e.get("fen"), "depth": e.get("d")})
    return matched, runs


def run(prop, tier, seed):
    T = TIERS[tier][prop]
    R = vlib.Result(prop, tier, seed)
    searchmc.run(prop, tier, R, regression=(prop == "C06"), seed=seed)
    exe = vlib.build_harness()
    work = vlib.workdir("search_" + prop)
    try:
        def shard(i):
            out = os.path.join(work, "dump_%d.ndjson" % i)
            return out, _audit(prop, exe, work, _args(prop, T, seed, i, out), str(i), R)
        tot = {}
        events = 0
        sample_done = False
        for out, (matched, stats) in vlib.parallel(shard, range(T["shards"])):
            events += matched
            for k, v in stats.items():
                tot[k] = tot.get(k, 0) + v
            if not sample_done and os.path.getsize(out) > 0:
                e = json.loads(open(out).readline())
                s = {"root": e["rootfen"], "depth": e["d"], "graph_nodes": e["g"]["n"],
                     "fresh": [{k: f.get(k) for k in ("d", "score", "move", "nodes")} for f in e["fresh"]],
                     "entries_sample": e["fresh"][-1].get("entries", [])[:4]}
                if "abort" in e:
                    s["abort"] = {k: e["abort"][k] for k in ("total", "runs", "panics")}
                    s["abort"]["results"] = e["abort"]["results"][:4]
                R.sample(s)
                sample_done = True
        if prop == "C05":
            def wshard(i):
                out = os.path.join(work, "win_%d.ndjson" % i)
                return out, _windows(exe, work, ["search-window", "--seed", seed * 389 + i, "--positions", T["win_positions"], "--maxdepth", T["win_depth"],
                                                 "--out", out], str(i), R)
            wev = wpr = 0
            for out, (m, pr) in vlib.parallel(wshard, range(T["shards"])):
                wev += m
                wpr += pr
                if len(R.coverage["samples"]) < 3 and os.path.getsize(out):
                    e = json.loads(open(out).readline())
                    e.pop("pos", None)
                    R.sample(e)
            R.coverage["alpha_beta_contract"] = {"positions_x_depths": wev, "window_probes": wpr,
                                                 "note": "positions of every game phase, no finite-quiescence restriction"}

            def bshard(i):
                out = os.path.join(work, "bell_%d.ndjson" % i)
                return out, _bellman(exe, work, ["search-bellman", "--seed", seed * 433 + i, "--positions", T["bell_positions"], "--kpk", T["bell_kpk"],
                                                 "--maxdepth", T["bell_depth"], "--out", out], str(i), R)
            bev = bk = 0
            for out, (m, k) in vlib.parallel(bshard, range(T["shards"])):
                bev += m
                bk += k
            # tactical roots: positions in which a special move (castling, en passant, promotion, discovered / double check)
            # mates, or is the mating reply to avoid - forward pruning and move classification are wrong exactly there
            def tshard(i):
                sp = os.path.join(work, "tactical_%d.ndjson" % i)
                vlib.run_harness(exe, ["search-mate", "--seed", seed * 71 + i, "--mate1", 0, "--defend", 10 ** 6, "--special", T.get("bell_special", 1), "--out", sp],
                                 stdout_path=os.path.join(work, "tstdout_%d.txt" % i), timeout=3600)
                fl2 = os.path.join(work, "tactical_%d.fens" % i)
                with open(fl2, "w") as f:
                    for l in open(sp):
                        f.write(json.loads(l)["fen"] + "\n")
                out2 = os.path.join(work, "bell_t%d.ndjson" % i)
                return _bellman(exe, work, ["search-bellman", "--fens", fl2, "--maxdepth", 2, "--out", out2], "t%d" % i, R)
            tev = tk = 0
            for m, k in vlib.parallel(tshard, range(T["shards"])):
                tev += m
                tk += k
            R.coverage["minimax_recursion_tactical_roots"] = {"positions_x_depths": tev, "successor_searches": tk}
            R.coverage["minimax_recursion"] = {"positions_x_depths": bev, "successor_searches": bk,
                                               "note": "V(p,d) = max -V(p.m,d-1) over separate fresh full-window searches; game positions of every phase "
                                                       "plus the family king + pawn on the seventh rank (+ one man) against king"}
            log("[C05] minimax recursion: %d position/depth pairs, %d successor searches" % (bev, bk))
            log("[C05] alpha-beta contract: %d position/depth pairs, %d window probes" % (wev, wpr))
        # step-level binding of Search.tla to the code (SPEC-DRIFT detector, no verdict)
        ST = T.get("steps", {})
        if prop == "C05":
            R.coverage["step_traces"] = steps.run(R, exe, work, seed, 0, ST.get("cases", 16), ST.get("depth", 2))
            R.coverage["heuristic_containers"] = heur.run(R, exe, work, seed, ops=ST.get("heur_ops", 3000))
        else:
            R.coverage["step_traces"] = steps.run(R, exe, work, seed, 1, ST.get("cases", 16), ST.get("depth", 2))
            if ST.get("two"):
                R.coverage["step_traces_two_interruptions"] = steps.run(R, exe, work, seed + 1, 2, ST.get("cases", 16), ST.get("depth", 2), tag="steps2")
        if prop == "C06":
            def ashard(i):
                out = os.path.join(work, "aeq_%d.ndjson" % i)
                return _aborteq(exe, work, ["search-aborteq", "--seed", seed * 521 + i, "--positions", T.get("aeq_positions", 12), "--depth", 3,
                                            "--samples", T.get("aeq_samples", 60), "--hist", i % 2, "--out", out], str(i), R)
            aev = aruns = 0
            for m, k in vlib.parallel(ashard, range(T["shards"])):
                aev += m
                aruns += k
            R.coverage["interrupted_then_completed_vs_fresh"] = {"positions_x_depths": aev, "interrupted_runs": aruns,
                                                                 "note": "game positions of every phase (no finite-quiescence restriction), depth 2-3, random poll budgets; every second shard "
                                                                         "with a game history in which the first move of a round trip is a third occurrence (the repetition answers for all successors "
                                                                         "must be the same before and after the interrupted search)"}
            log("[C06] arbitrary positions: %d position/depth pairs, %d interrupted-then-completed runs compared with a fresh engine" % (aev, aruns))
        R.coverage["traces_validated_against_impl"] = tot.get("positions", 0) + R.coverage.get("alpha_beta_contract", {}).get("positions_x_depths", 0)
        R.coverage["graph_audit"] = tot
        R.coverage["events_matched"] = events
        if tot.get("positions", 0) == 0:
            raise ToolError("no position with a finite quiescence tree was found")
        log("[%s] %d positions (%d graph nodes), %d searches, %d cached claims audited, %d interrupted runs, %d violations" % (
            prop, tot.get("positions", 0), tot.get("nodes", 0), tot.get("searches", 0), tot.get("claims", 0), tot.get("abort_runs", 0), len(R.violations)))
    finally:
        shutil.rmtree(work, ignore_errors=True)
    R.assumptions = ["TLC/SANY/CommunityModules", "positions restricted to those whose full quiescence tree is finite and below the cap "
                     "(the engine follows checks without depth limit); sampled from capture-heavy playouts and sparse placements",
                     "the static evaluation of every node is taken from the engine ('the engine's own quiescence evaluation')",
                     "graphs are validated node by node against ChessRules.tla for the first positions of each shard; the others rely on C01/C02/C17",
                     "a node budget enumerates every interruption point: should_stop is polled before every child, between two polls at "
                     "least one node is entered (DESIGN.md section 4)"]
    return R


def replay(prop, payload):
    exe = vlib.build_harness()
    R = vlib.Result(prop, "quick", 0)
    work = vlib.workdir("searchreplay")
    try:
        fl = os.path.join(work, "fens.txt")
        open(fl, "w").write(payload["fen"] + "\n")
        if payload.get("kind") == "aborteq":
            out = os.path.join(work, "aeq.ndjson")
            m, k = _aborteq(exe, work, ["search-aborteq", "--fens", fl, "--positions", 1, "--depth", 3, "--samples", 400, "--out", out], "r", R)
            R.coverage["traces_validated_against_impl"] = m
            R.sample(payload)
            return R
        if payload.get("kind") == "bellman":
            out = os.path.join(work, "bell.ndjson")
            m, k = _bellman(exe, work, ["search-bellman", "--fens", fl, "--maxdepth", max(1, int(payload["depth"])), "--out", out], "r", R)
            R.coverage["traces_validated_against_impl"] = m
            R.sample(payload)
            return R
        if payload.get("kind") == "window":
            out = os.path.join(work, "win.ndjson")
            m, pr = _windows(exe, work, ["search-window", "--fens", fl, "--positions", 1, "--maxdepth", max(3, int(payload["depth"])), "--out", out], "r", R)
            R.coverage["traces_validated_against_impl"] = m
            R.sample(payload)
            return R
        T = dict(TIERS["thorough"][prop], positions=1, depth=payload["depth"], validate=1, cap=200000)
        out = os.path.join(work, "dump.ndjson")
        matched, stats = _audit(prop, exe, work, _args(prop, T, 1, 0, out, fens=fl), "replay", R)
        if stats["positions"] == 0:
            raise ToolError("could not rebuild the game graph of %s" % payload["fen"])
        R.coverage["traces_validated_against_impl"] = 1
        R.sample(payload)
    finally:
        shutil.rmtree(work, ignore_errors=True)
    return R
