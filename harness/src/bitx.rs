//! Primitive layer (src/bitboard.rs, src/square.rs, Move::to_algebraic): record the answers of the real
//! primitives for BitTrace.tla.  Nothing is judged here.

use crate::bitboard::*;
use crate::moves::{Move, MoveType};
use crate::pieces::Piece;
use crate::square::*;
use rand::{Rng, SeedableRng};
use serde_json::{json, Value};
use std::io::Write;
use std::panic::{catch_unwind, AssertUnwindSafe};

fn arg(args: &[String], name: &str, default: &str) -> String {
    args.iter().position(|a| a == name).and_then(|i| args.get(i + 1).cloned()).unwrap_or_else(|| default.to_string())
}

fn squares(bb: u64) -> Vec<u8> {
    (0..64u8).filter(|s| bb >> s & 1 == 1).collect()
}

fn chars(s: &str) -> Vec<String> {
    s.chars().map(|c| c.to_string()).collect()
}

fn shift_event(bb: u64, d: i8) -> Value {
    match catch_unwind(AssertUnwindSafe(|| bb.shift(d))) {
        Ok(out) => json!({"ev":"shift","bb":squares(bb),"d":d,"out":squares(out)}),
        Err(_) => json!({"ev":"panic","where":"shift","bb":squares(bb),"d":d}),
    }
}

pub fn record(args: &[String]) -> i32 {
    let seed: u64 = arg(args, "--seed", "1").parse().unwrap();
    let n: usize = arg(args, "--n", "300").parse().unwrap();
    let mut rng = rand::rngs::StdRng::seed_from_u64(seed);
    let mut w = std::io::BufWriter::new(std::io::stdout());
    let ranks = [RANK_1, RANK_2, RANK_3, RANK_4, RANK_5, RANK_6, RANK_7, RANK_8];
    let files = [FILE_A, FILE_B, FILE_C, FILE_D, FILE_E, FILE_F, FILE_G, FILE_H];
    writeln!(w, "{}", json!({"ev":"const",
        "ranks": ranks.iter().map(|b| squares(*b)).collect::<Vec<_>>(),
        "files": files.iter().map(|b| squares(*b)).collect::<Vec<_>>(),
        "wk": squares(WHITE_KING_SIDE), "wq": squares(WHITE_QUEEN_SIDE),
        "bk": squares(BLACK_KING_SIDE), "bq": squares(BLACK_QUEEN_SIDE)})).unwrap();
    // every single square x every amount -20..20
    for s in 0..64u8 {
        for d in -20i8..=20 {
            writeln!(w, "{}", shift_event(1u64 << s, d)).unwrap();
        }
    }
    // edge lines, the full board, random sparse / dense sets
    let mut sets: Vec<u64> = vec![u64::MAX, 0];
    sets.extend_from_slice(&ranks);
    sets.extend_from_slice(&files);
    for i in 0..n {
        let a: u64 = rng.gen();
        let b: u64 = rng.gen();
        let c: u64 = rng.gen();
        sets.push(match i % 3 {
            0 => a & b & c,
            1 => a,
            _ => a | b,
        });
    }
    let named: [i8; 16] = [8, -8, 1, -1, 9, 7, -7, -9, 17, 15, -15, -17, 10, 6, -6, -10];
    for (i, bb) in sets.iter().enumerate() {
        for d in named.iter() {
            writeln!(w, "{}", shift_event(*bb, *d)).unwrap();
        }
        for d in [16i8, -16, 2, -2, 0, 20, -20, 63, -63, 64, -64, 100, -100, 127, -127] {
            writeln!(w, "{}", shift_event(*bb, d)).unwrap();
        }
        let it: Vec<u8> = BitboardIterator::new(*bb).collect();
        writeln!(w, "{}", json!({"ev":"iter","bb":squares(*bb),"out":it})).unwrap();
        let s: u8 = rng.gen_range(0..64);
        let mut x = *bb;
        x.set_bit(s);
        let mut y = *bb;
        y.remove_bit(s);
        let _ = i;
        writeln!(w, "{}", json!({"ev":"bit","bb":squares(*bb),"s":s,"set":squares(x),"rm":squares(y),
            "one":squares(Bitboard::square_to_bitboard(s))})).unwrap();
    }
    for rank in 0..8u8 {
        for file in 0..8u8 {
            writeln!(w, "{}", json!({"ev":"edge","rank":rank,"file":file,
                "out":squares(Bitboard::rank_file_to_edge_mask(rank, file)),
                "one":squares(Bitboard::rank_file_to_bitboard(rank, file))})).unwrap();
        }
    }
    for s in 0..64u8 {
        let txt = square_to_algebraic(s);
        let (r, f) = square_to_rank_file(s);
        writeln!(w, "{}", json!({"ev":"square","s":s,"txt":chars(&txt),"back":algebraic_to_square(&txt),
            "file":square_to_file(s),"rank":square_to_rank(s),"rf":[r, f],"sq":rank_file_to_square(r, f)})).unwrap();
    }
    let pcs = [(Piece::Pawn, "P"), (Piece::Knight, "N"), (Piece::Bishop, "B"), (Piece::Rook, "R"), (Piece::Queen, "Q"), (Piece::King, "K")];
    let mts = [MoveType::Quiet, MoveType::Capture, MoveType::EnPassant, MoveType::Castle, MoveType::Promotion];
    for _ in 0..n {
        let from: u8 = rng.gen_range(0..64);
        let to: u8 = rng.gen_range(0..64);
        let (pc, name) = pcs[rng.gen_range(0..6)];
        let mt = mts[rng.gen_range(0..5)];
        let m = Move::new(from, to, pc, mt);
        writeln!(w, "{}", json!({"ev":"move","from":from,"to":to,"pc":name,"promo":mt == MoveType::Promotion,
            "txt":chars(&m.to_algebraic())})).unwrap();
    }
    0
}
