//! C11: position hashing, observed through the public ZobristTable::hash only.

use crate::board::Board;
use crate::move_gen::MoveGenerator;
use crate::proj;
use crate::zobrist::ZobristTable;
use rand::{Rng, SeedableRng};
use serde_json::{json, Value};
use std::io::Write;

fn arg(args: &[String], name: &str, default: &str) -> String {
    args.iter().position(|a| a == name).and_then(|i| args.get(i + 1).cloned()).unwrap_or_else(|| default.to_string())
}

pub fn limbs(h: u64) -> Vec<u32> {
    vec![(h & 0xffff) as u32, (h >> 16 & 0xffff) as u32, (h >> 32 & 0xffff) as u32, (h >> 48 & 0xffff) as u32]
}

fn empty_codes() -> Vec<i32> {
    vec![0; 64]
}

/// recover one key per feature by differencing against the empty board (black to move)
fn recover_keys(z: &ZobristTable) -> Value {
    let base = proj::build_from(&empty_codes(), false, "", None);
    let h0 = z.hash(&base);
    let mut pc = vec![];
    for c in 1..=12i32 {
        let mut row = vec![];
        for s in 0..64usize {
            let mut cs = empty_codes();
            cs[s] = c;
            row.push(limbs(z.hash(&proj::build_from(&cs, false, "", None)) ^ h0));
        }
        pc.push(row);
    }
    let stm = limbs(z.hash(&proj::build_from(&empty_codes(), true, "", None)) ^ h0);
    let cr: Vec<Vec<u32>> = ["K", "Q", "k", "q"].iter().map(|r| limbs(z.hash(&proj::build_from(&empty_codes(), false, r, None)) ^ h0)).collect();
    let ep: Vec<Vec<u32>> = (0..64u8).map(|s| limbs(z.hash(&proj::build_from(&empty_codes(), false, "", Some(s))) ^ h0)).collect();
    json!({"h0": limbs(h0), "pc": pc, "stm": stm, "cr": cr, "ep": ep})
}

fn rebuilt(b: &Board, rng: &mut rand::rngs::StdRng) -> Board {
    // the same abstract position, built from its projection, with other move counters
    let mut nb = proj::build_struct(&proj::project_struct(b));
    nb.halfmove_clock = rng.gen::<u8>().into();
    nb.fullmove_counter = rng.gen::<u8>().into();
    nb
}

pub fn record(args: &[String]) -> i32 {
    let seed: u64 = arg(args, "--seed", "1").parse().unwrap();
    let draws: usize = arg(args, "--draws", "2").parse().unwrap();
    let games: usize = arg(args, "--games", "2").parse().unwrap();
    let plies: usize = arg(args, "--plies", "40").parse().unwrap();
    let var_every: usize = arg(args, "--var-every", "25").parse().unwrap();
    let mg = MoveGenerator::new();
    let mut rng = rand::rngs::StdRng::seed_from_u64(seed);
    let mut w = std::io::BufWriter::new(std::io::stdout());
    for d in 0..draws {
        let z = ZobristTable::new();
        writeln!(w, "{}", json!({"ev":"draw","n":d,"keys":recover_keys(&z)})).ok();
        let mut count = 0usize;
        for _ in 0..games {
            let mut b = Board::default();
            for _ in 0..plies {
                count += 1;
                writeln!(w, "{}", json!({"ev":"pos","how":"make_move","pos":proj::project_struct(&b),"h":limbs(z.hash(&b))})).ok();
                let nb = rebuilt(&b, &mut rng);
                writeln!(w, "{}", json!({"ev":"pos","how":"rebuilt","pos":proj::project_struct(&nb),"h":limbs(z.hash(&nb))})).ok();
                if count % var_every == 1 {
                    // every single-component perturbation of this position
                    let cs = proj::codes(&b);
                    let white = b.active_color() == crate::pieces::Color::White;
                    let cr: String = proj::rights(&b).concat();
                    let ep = b.en_passant_target;
                    for s in 0..64usize {
                        for c in 0..=12i32 {
                            if c == cs[s] {
                                continue;
                            }
                            let mut v = cs.clone();
                            v[s] = c;
                            let h = z.hash(&proj::build_from(&v, white, &cr, ep));
                            writeln!(w, "{}", json!({"ev":"var","kind":"square","sq":s,"code":c,"h":limbs(h)})).ok();
                        }
                    }
                    let h = z.hash(&proj::build_from(&cs, !white, &cr, ep));
                    writeln!(w, "{}", json!({"ev":"var","kind":"side","h":limbs(h)})).ok();
                    for r in ["K", "Q", "k", "q"] {
                        let ncr: String = if cr.contains(r) { cr.replace(r, "") } else { format!("{}{}", cr, r) };
                        let h = z.hash(&proj::build_from(&cs, white, &ncr, ep));
                        writeln!(w, "{}", json!({"ev":"var","kind":"right","right":r,"h":limbs(h)})).ok();
                    }
                    let mut eps: Vec<Option<u8>> = (16..24u8).chain(40..48u8).map(Some).collect();
                    eps.push(None);
                    for e in eps {
                        if e == ep {
                            continue;
                        }
                        let h = z.hash(&proj::build_from(&cs, white, &cr, e));
                        writeln!(w, "{}", json!({"ev":"var","kind":"ep","sq":e.map(|x| x as i32).unwrap_or(-1),"h":limbs(h)})).ok();
                    }
                }
                let moves = mg.generate_moves(&b);
                if moves.is_empty() {
                    break;
                }
                // transposition pairs: try two commuting quiet moves of the mover around one reply
                let m = moves[rng.gen_range(0..moves.len())];
                b.make_move(&m);
            }
            // knight shuffles return to an earlier position with different history
            let mut b = Board::default();
            let names = ["g1f3", "g8f6", "f3g1", "f6g8", "b1c3", "b8c6", "c3b1", "c6b8"];
            writeln!(w, "{}", json!({"ev":"pos","how":"start","pos":proj::project_struct(&b),"h":limbs(z.hash(&b))})).ok();
            for n in names {
                let ms = mg.generate_moves(&b);
                if let Some(m) = ms.iter().find(|m| proj::move_text(m) == n) {
                    b.make_move(m);
                    writeln!(w, "{}", json!({"ev":"pos","how":"shuffle","pos":proj::project_struct(&b),"h":limbs(z.hash(&b))})).ok();
                }
            }
            // two move orders into the same position
            for order in [["e2e4", "e7e5", "g1f3", "b8c6"], ["g1f3", "b8c6", "e2e4", "e7e5"]] {
                let mut b = Board::default();
                for n in order {
                    let ms = mg.generate_moves(&b);
                    if let Some(m) = ms.iter().find(|m| proj::move_text(m) == n) {
                        b.make_move(m);
                    }
                }
                // the e.p. square differs by move order (e6 vs none): also log the rights/e.p.-free core
                writeln!(w, "{}", json!({"ev":"pos","how":"transposition","pos":proj::project_struct(&b),"h":limbs(z.hash(&b))})).ok();
                let ms = mg.generate_moves(&b);
                if let Some(m) = ms.iter().find(|m| proj::move_text(m) == "f1c4") {
                    b.make_move(m);
                    writeln!(w, "{}", json!({"ev":"pos","how":"transposition+1","pos":proj::project_struct(&b),"h":limbs(z.hash(&b))})).ok();
                }
            }
        }
        writeln!(w, "{}", json!({"ev":"enddraw","n":d})).ok();
    }
    w.flush().ok();
    0
}
