//! Random operation histories on the real KillerMoves / HistoryTable / RepetitionTable, recorded for
//! HeurTrace.tla (one event per operation, with the answers of the public queries afterwards).

use crate::history::HistoryTable;
use crate::killer_moves::KillerMoves;
use crate::moves::{Move, MoveType};
use crate::pieces::Piece;
use crate::repetition::RepetitionTable;
use rand::{Rng, SeedableRng};
use serde_json::json;
use std::io::Write;

fn arg(args: &[String], name: &str, default: &str) -> String {
    args.iter().position(|a| a == name).and_then(|i| args.get(i + 1).cloned()).unwrap_or_else(|| default.to_string())
}

pub fn record(args: &[String]) -> i32 {
    let seed: u64 = arg(args, "--seed", "1").parse().unwrap();
    let ops: usize = arg(args, "--ops", "2000").parse().unwrap();
    let out = arg(args, "--out", "");
    let mut w = std::io::BufWriter::new(std::fs::File::create(&out).unwrap());
    let mut rng = rand::rngs::StdRng::seed_from_u64(seed);
    // 12 from/to pairs (history keys 1..12); move ids 1..12 and 13..24 share the pairs but differ in
    // piece or move type: distinct killers, same history key
    let pairs: Vec<(u8, u8)> = vec![(12, 28), (6, 21), (1, 18), (52, 36), (62, 45), (57, 42), (0, 56), (63, 7), (4, 6), (60, 58), (35, 44), (27, 36)];
    let mut moves: Vec<Move> = vec![];
    for (f, t) in &pairs {
        moves.push(Move::new(*f, *t, Piece::Knight, MoveType::Quiet));
    }
    for (i, (f, t)) in pairs.iter().enumerate() {
        moves.push(if i % 2 == 0 { Move::new(*f, *t, Piece::Bishop, MoveType::Quiet) } else { Move::new(*f, *t, Piece::Knight, MoveType::Capture) });
    }
    let mut k = KillerMoves::new();
    let mut h = HistoryTable::new();
    let mut r = RepetitionTable::new();
    let hashes: Vec<u64> = vec![0, 1, u64::MAX, 0x8000_0000_0000_0000, 0x1_0000_0000, 0x0000_0001_0000_0001, 77, 78];
    let killers = |k: &KillerMoves, ply: u8| -> Vec<bool> { moves.iter().map(|m| k.is_killer(m, ply)).collect() };
    let mut burst_done = false;
    for _ in 0..ops {
        let c = rng.gen_range(0..100);
        if c < 1 {
            k = KillerMoves::new();
            h = HistoryTable::new();
            r = RepetitionTable::new();
            writeln!(w, "{}", json!({"op":"reset"})).ok();
        } else if c < 35 {
            let m = rng.gen_range(0..moves.len());
            let ply: u8 = if rng.gen_bool(0.1) { rng.gen_range(60..80) } else { rng.gen_range(0..6) };
            k.store(moves[m], ply);
            let other: u8 = rng.gen_range(0..6);
            writeln!(w, "{}", json!({"op":"kstore","m":m + 1,"ply":ply,"killers":killers(&k, ply),"other":other,"killers_other":killers(&k, other)})).ok();
        } else if c < 60 {
            let m = rng.gen_range(0..moves.len());
            let d: u8 = if rng.gen_bool(0.05) { 255 } else { rng.gen_range(0..40) };
            // a few records of huge weight reach the saturation bound
            let reps = if !burst_done && rng.gen_bool(0.05) { burst_done = true; 34000 } else { 1 };
            let d: u8 = if reps > 1 { 255 } else { d };
            for i in 0..reps {
                h.record_cutoff(&moves[m], d);
                if i + 1 < reps {
                    // (intermediate records are logged too, compactly: same event shape)
                    writeln!(w, "{}", json!({"op":"hrec","key":(m % 12) + 1,"d":d,"score":h.get_score(&moves[m])})).ok();
                }
            }
            writeln!(w, "{}", json!({"op":"hrec","key":(m % 12) + 1,"d":d,"score":h.get_score(&moves[m])})).ok();
        } else if c < 68 {
            h.age();
            let scores: Vec<i32> = (0..12).map(|i| h.get_score(&moves[i])).collect();
            writeln!(w, "{}", json!({"op":"hage","scores":scores})).ok();
        } else if c < 82 {
            let x = rng.gen_range(0..hashes.len());
            r.push(hashes[x]);
            writeln!(w, "{}", json!({"op":"rpush","x":x + 1,"len":r.len()})).ok();
        } else if c < 90 {
            r.pop();
            writeln!(w, "{}", json!({"op":"rpop","len":r.len()})).ok();
        } else {
            let x = rng.gen_range(0..hashes.len());
            writeln!(w, "{}", json!({"op":"risrep","x":x + 1,"ans":r.is_repetition(hashes[x])})).ok();
        }
    }
    w.flush().ok();
    0
}
