//! Hook-level driver of the protocol handler (C04, C09, C12): feeds command lines printed by the
//! specification (UciGen) to Flounder::verif_handle_command and logs the projected board, the
//! repetition answers the search would give for every legal move, and go budgets.
//! Events go to --out (the engine itself prints to stdout).

use crate::move_gen::MoveGenerator;
use crate::proj;
use crate::uci::Flounder;
use serde_json::{json, Value};
use std::io::Write;
use std::panic::{catch_unwind, AssertUnwindSafe};

fn arg(args: &[String], name: &str, default: &str) -> String {
    args.iter().position(|a| a == name).and_then(|i| args.get(i + 1).cloned()).unwrap_or_else(|| default.to_string())
}

pub fn script(args: &[String]) -> i32 {
    let input = arg(args, "--in", "");
    let output = arg(args, "--out", "");
    let want_rep = arg(args, "--rep", "0") == "1";
    let mg = MoveGenerator::new();
    let mut w = std::io::BufWriter::new(std::fs::File::create(&output).unwrap());
    let mut eng: Option<Flounder> = None;
    let mut texts: Vec<String> = vec![];     // the commands handled since the engine was created
    for line in std::fs::read_to_string(&input).unwrap().lines() {
        let c: Value = match serde_json::from_str(line) {
            Ok(v) => v,
            Err(_) => continue,
        };
        if c["k"] != "C" {
            continue;
        }
        if c["n"] == 1 || eng.is_none() {
            texts.clear();
            eng = Some(Flounder::new());
            writeln!(w, "{}", json!({"ev":"start"})).ok();
        }
        let kind = c["kind"].as_str().unwrap_or("");
        let text = c["text"].as_str().unwrap_or("");
        match kind {
            // process-level behaviour / printed answers: not observable through the hook
            "quit" | "eof" | "go" | "uci" | "isready" => continue,
            _ => {}
        }
        let f = eng.as_mut().unwrap();
        let mut ev = json!({"ev":"cmd","kind":kind,"text":text,"out":[]});
        for k in ["sp", "start", "hm", "fm", "moves"] {
            if !c[k].is_null() {
                ev[k] = c[k].clone();
            }
        }
        texts.push(text.to_string());
        let ok = catch_unwind(AssertUnwindSafe(|| f.verif_handle_command(text))).is_ok();
        if !ok {
            ev["crashed"] = json!(true);
            ev["crash"] = json!({"status":"panic"});
            writeln!(w, "{}", ev).ok();
            eng = None; // the handler's state is undefined after a panic: next command starts a new engine
            continue;
        }
        if kind == "position" {
            let b = *f.verif_board();
            ev["board"] = proj::project_struct(&b);
            if want_rep {
                let res = catch_unwind(AssertUnwindSafe(|| {
                    let mut rep = vec![];
                    for m in mg.generate_moves(&b) {
                        let child = b.clone_with_move(&m);
                        let d = f.verif_searcher().verif_is_repetition_draw(&b, &child);
                        rep.push(json!([proj::move_text(&m), d]));
                    }
                    rep
                }));
                match res {
                    Ok(rep) => ev["rep"] = json!(rep),
                    Err(_) => {
                        ev["crashed"] = json!(true);
                    }
                }
                // ... and what the REAL search does with the successors: a depth-1 search on the engine's own Searcher with
                // the event sink on; for every node entered at ply 1: did it return through the repetition rule, with which
                // score, and was anything searched below it
                // (on a SECOND engine that was given the same commands and has searched nothing: C09 speaks of a search that
                //  does not rely on results cached before the history existed, so the probe must not see the tables filled by
                //  the probes of earlier commands)
                crate::timer::verif::set_poll_limit(None);
                let mut sr0 = catch_unwind(AssertUnwindSafe(|| {
                    let mut g = Flounder::new();
                    for t in &texts {
                        g.verif_handle_command(t);
                    }
                    g
                }));
                let mut evs = vec![];
                let sr = match sr0.as_mut() {
                    Ok(g) => {
                        crate::search::verif::set_sink(true);
                        let r = catch_unwind(AssertUnwindSafe(|| g.verif_searcher().find_best_move(&b, 1, None)));
                        evs = crate::search::verif::set_sink(false);
                        r.map(|_| ())
                    }
                    Err(_) => Err(Box::new(()) as Box<dyn std::any::Any + Send>),
                };
                if sr.is_err() {
                    ev["crashed"] = json!(true);
                } else {
                    use crate::search::verif::Ev;
                    let kids: Vec<(String, String)> = mg.generate_moves(&b).iter().map(|m| (proj::project(&b.clone_with_move(m)), proj::move_text(m))).collect();
                    let mut stack: Vec<(u8, String, bool)> = vec![];
                    let mut seen = vec![];
                    for (_, e) in &evs {
                        match e {
                            Ev::Neg { board, ply, .. } => {
                                if let Some(top) = stack.last_mut() {
                                    top.2 = true;
                                }
                                stack.push((*ply, proj::project(board), false));
                            }
                            Ev::Quiet { .. } => {
                                if let Some(top) = stack.last_mut() {
                                    top.2 = true;
                                }
                            }
                            Ev::NegRet { kind, score, .. } => {
                                if let Some((ply, key, below)) = stack.pop() {
                                    if ply == 1 {
                                        if let Some((_, text)) = kids.iter().find(|(k, _)| *k == key) {
                                            seen.push(json!([text, *kind == "rep", (*score).clamp(-40000, 40000), below]));
                                        }
                                    }
                                }
                            }
                            _ => {}
                        }
                    }
                    ev["seen"] = json!(seen);
                    // ... and one ply deeper: a depth-2 search on the same second engine; every node entered at ply 2 that returned
                    // through the repetition rule, and a sample of those that did not, with the two moves that lead to it
                    if let Ok(g) = sr0.as_mut() {
                        crate::search::verif::set_sink(true);
                        let r2 = catch_unwind(AssertUnwindSafe(|| g.verif_searcher().find_best_move(&b, 2, None)));
                        let evs2 = crate::search::verif::set_sink(false);
                        if r2.is_ok() {
                            let mut stack: Vec<(u8, crate::board::Board, bool)> = vec![];
                            let mut seen2 = vec![];
                            let mut others = 0usize;
                            let mut in_last = false;
                            for (_, e) in &evs2 {
                                match e {
                                    Ev::Neg { board, ply, depth, .. } => {
                                        if *ply == 0 {
                                            in_last = *depth == 2;       // only the depth-2 iteration
                                        }
                                        if let Some(top) = stack.last_mut() {
                                            top.2 = true;
                                        }
                                        stack.push((*ply, *board, false));
                                    }
                                    Ev::Quiet { .. } => {
                                        if let Some(top) = stack.last_mut() {
                                            top.2 = true;
                                        }
                                    }
                                    Ev::NegRet { kind, score, .. } => {
                                        if let Some((ply, board, below)) = stack.pop() {
                                            if ply == 2 && in_last && stack.len() == 2 {
                                                let isrep = *kind == "rep";
                                                if isrep || others < 12 {
                                                    let parent = stack[1].1;
                                                    let m1 = mg.generate_moves(&b).into_iter().find(|m| proj::project(&b.clone_with_move(m)) == proj::project(&parent));
                                                    let m2 = mg.generate_moves(&parent).into_iter().find(|m| proj::project(&parent.clone_with_move(m)) == proj::project(&board));
                                                    if let (Some(m1), Some(m2)) = (m1, m2) {
                                                        if !isrep {
                                                            others += 1;
                                                        }
                                                        seen2.push(json!([proj::move_text(&m1), proj::move_text(&m2), isrep, (*score).clamp(-40000, 40000), below]));
                                                    }
                                                }
                                            }
                                        }
                                    }
                                    _ => {}
                                }
                            }
                            ev["seen2"] = json!(seen2);
                            // ... and a depth-5 search (node budget 150 000): every node at ANY ply whose position is one of the positions
                            // of the game (the only candidates for a repetition) or that returned through the repetition rule
                            if texts.last().map(|t| t.contains(" moves ")).unwrap_or(false) {
                                let mut game: std::collections::HashSet<String> = std::collections::HashSet::new();
                                {
                                    // the positions of the game as the engine's own handler replays them (a join key only; TLC recomputes the game)
                                    let mut h = Flounder::new();
                                    let last = texts.last().unwrap().clone();
                                    let (head, moves) = last.split_at(last.find(" moves ").unwrap());
                                    let mut acc = head.to_string();
                                    let _ = catch_unwind(AssertUnwindSafe(|| h.verif_handle_command(&acc)));
                                    game.insert(proj::project(h.verif_board()));
                                    acc.push_str(" moves");
                                    for m in moves.split_whitespace().skip(1) {
                                        acc.push(' ');
                                        acc.push_str(m);
                                        if catch_unwind(AssertUnwindSafe(|| h.verif_handle_command(&acc))).is_err() {
                                            break;
                                        }
                                        game.insert(proj::project(h.verif_board()));
                                    }
                                }
                                g.verif_searcher().verif_set_node_limit(Some(150_000));
                                crate::search::verif::set_sink(true);
                                let r5 = catch_unwind(AssertUnwindSafe(|| g.verif_searcher().find_best_move(&b, 5, None)));
                                let evs5 = crate::search::verif::set_sink(false);
                                crate::timer::verif::set_node_limit(None);
                                if r5.is_ok() {
                                    let mut stack: Vec<(u8, crate::board::Board, bool)> = vec![];
                                    let mut seen_n = vec![];
                                    let mut dedup: std::collections::HashSet<(String, bool, i32, bool)> = std::collections::HashSet::new();
                                    for (_, e) in &evs5 {
                                        match e {
                                            Ev::Neg { board, ply, .. } => {
                                                if let Some(top) = stack.last_mut() {
                                                    top.2 = true;
                                                }
                                                stack.push((*ply, *board, false));
                                            }
                                            Ev::Quiet { .. } => {
                                                if let Some(top) = stack.last_mut() {
                                                    top.2 = true;
                                                }
                                            }
                                            Ev::NegRet { kind, score, .. } => {
                                                if let Some((ply, board, below)) = stack.pop() {
                                                    let isrep = *kind == "rep";
                                                    // (an aborted node proves nothing: the deadline, not the rule, ended it)
                                                    if ply >= 1 && *kind != "abort" && (isrep || game.contains(&proj::project(&board))) && seen_n.len() < 150 {
                                                        let sc = (*score).clamp(-40000, 40000);
                                                        if dedup.insert((proj::project(&board), isrep, sc, below)) {
                                                            seen_n.push(json!([proj::project_struct(&board), ply, isrep, sc, below]));
                                                        }
                                                    }
                                                }
                                            }
                                            _ => {}
                                        }
                                    }
                                    ev["seenN"] = json!(seen_n);
                                } else {
                                    ev["crashed"] = json!(true);
                                }
                            }
                        } else {
                            ev["crashed"] = json!(true);
                        }
                    }
                }
            }
        }
        writeln!(w, "{}", ev).ok();
    }
    w.flush().ok();
    0
}

/// C12: the (depth, budget) the real go parser hands to the search for each go line
pub fn budgets(args: &[String]) -> i32 {
    let input = arg(args, "--in", "");
    let output = arg(args, "--out", "");
    let mut w = std::io::BufWriter::new(std::fs::File::create(&output).unwrap());
    let mut f = Flounder::new();
    let mut stm = String::from("w");
    for line in std::fs::read_to_string(&input).unwrap().lines() {
        let c: Value = match serde_json::from_str(line) {
            Ok(v) => v,
            Err(_) => continue,
        };
        if c["k"] == "side" {
            // set the side to move through the real position command
            let text = c["text"].as_str().unwrap();
            if catch_unwind(AssertUnwindSafe(|| f.verif_handle_command(text))).is_err() {
                writeln!(w, "{}", json!({"ev":"panic","where":"position"})).ok();
                f = Flounder::new();
                continue;
            }
            stm = c["stm"].as_str().unwrap().to_string();
            let b = *f.verif_board();
            writeln!(w, "{}", json!({"ev":"side","stm":stm,"board_stm": if b.active_color() == crate::pieces::Color::White {"w"} else {"b"}})).ok();
            continue;
        }
        if c["k"] != "go" {
            continue;
        }
        let text = c["text"].as_str().unwrap();
        let mut ev = json!({"ev":"go","text":text,"stm":stm,"go":c["go"].clone()});
        match catch_unwind(AssertUnwindSafe(|| f.verif_go_budget(text))) {
            Ok(Some((depth, limit))) => {
                ev["depth"] = json!(depth);
                match limit {
                    // milliseconds, saturated for TLC's 32-bit integers
                    Some(d) => ev["budget"] = json!(d.as_millis().min(2_000_000_000) as i64),
                    None => ev["budget"] = json!(-1),
                }
            }
            Ok(None) => {
                ev["captured"] = json!(false);
            }
            Err(_) => {
                ev["panic"] = json!(true);
                f = Flounder::new();
            }
        }
        writeln!(w, "{}", ev).ok();
    }
    w.flush().ok();
    0
}
