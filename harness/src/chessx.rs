//! C01 / C02 / C17: move generation, make_move and the tactical move filter.
//!
//! `chess-replay`: specification -> implementation.  Reads the state records printed by TLC from
//! Chess.tla (position, check flag, every legal move with its successor, tactical set) and puts
//! the same questions to the real code.  `--mode walk` advances ONE engine board along each
//! simulated game with make_move only (never re-set from text), so stale rights or ghost bits
//! accumulate and surface.
//!
//! `chess-record`: implementation -> specification.  Plays seeded random games / synthetic
//! placements with the real code and logs one event per specification action (ndjson) for
//! ChessTrace.tla.

use crate::board::Board;
use crate::move_gen::MoveGenerator;
use crate::moves::{Move, MoveType};
use crate::proj;
use rand::{Rng, SeedableRng};
use serde_json::{json, Value};
use std::collections::{BTreeMap, BTreeSet};
use std::io::{BufRead, Write};
use std::panic::{catch_unwind, AssertUnwindSafe};

fn arg(args: &[String], name: &str, default: &str) -> String {
    args.iter()
        .position(|a| a == name)
        .and_then(|i| args.get(i + 1).cloned())
        .unwrap_or_else(|| default.to_string())
}

fn texts(ms: &[Move]) -> Vec<String> {
    ms.iter().map(proj::move_text).collect()
}

struct Out {
    w: std::io::BufWriter<std::io::Stdout>,
    mismatches: u64,
}
impl Out {
    fn mismatch(&mut self, property: &str, check: &str, line: u64, fen: &str, expected: Value, got: Value) {
        self.mismatches += 1;
        if self.mismatches <= 200 {
            writeln!(
                self.w,
                "{}",
                json!({"k":"MISMATCH","property":property,"check":check,"line":line,"fen":fen,
                       "expected":expected,"got":got})
            )
            .ok();
        }
    }
}

/// the questions put to the implementation for one state; every comparison is an equality between
/// a value TLC computed from the specification and the projection of the implementation's answer
fn check_state(mg: &MoveGenerator, b: &Board, rec: &Value, line: u64, out: &mut Out, stats: &mut BTreeMap<&'static str, u64>) {
    let fen = rec["fen"].as_str().unwrap();
    // expected: uci -> successor text
    let mut exp: BTreeMap<String, String> = BTreeMap::new();
    for p in rec["succ"].as_array().unwrap() {
        exp.insert(p[0].as_str().unwrap().to_string(), p[1].as_str().unwrap().to_string());
    }
    let exp_tact: BTreeSet<String> = rec["tact"].as_array().unwrap().iter().map(|v| v.as_str().unwrap().to_string()).collect();
    let exp_chk = rec["chk"].as_bool().unwrap();

    // --- C01: generated set = legal set, no duplicates; check flag
    let moves = match catch_unwind(AssertUnwindSafe(|| mg.generate_moves(b))) {
        Ok(m) => m,
        Err(_) => {
            out.mismatch("C01", "panic-generate_moves", line, fen, json!(null), json!("panic"));
            return;
        }
    };
    let got: Vec<String> = texts(&moves);
    let got_set: BTreeSet<String> = got.iter().cloned().collect();
    let exp_set: BTreeSet<String> = exp.keys().cloned().collect();
    if got_set != exp_set {
        let missing: Vec<&String> = exp_set.difference(&got_set).collect();
        let extra: Vec<&String> = got_set.difference(&exp_set).collect();
        out.mismatch("C01", "moveset", line, fen, json!({"missing_from_engine":missing}), json!({"not_legal":extra}));
    }
    if got.len() != got_set.len() {
        out.mismatch("C01", "duplicate", line, fen, json!(got_set.len()), json!(got.len()));
    }
    match catch_unwind(AssertUnwindSafe(|| mg.is_in_check(b))) {
        Ok(c) => {
            if c != exp_chk {
                out.mismatch("C01", "check-flag", line, fen, json!(exp_chk), json!(c));
            }
        }
        Err(_) => out.mismatch("C01", "panic-is_in_check", line, fen, json!(null), json!("panic")),
    }
    *stats.entry("states").or_insert(0) += 1;
    *stats.entry("moves").or_insert(0) += moves.len() as u64;

    // --- C02: every legal move yields exactly the successor
    for m in &moves {
        let t = proj::move_text(m);
        if let Some(want) = exp.get(&t) {
            match catch_unwind(AssertUnwindSafe(|| b.clone_with_move(m))) {
                Ok(nb) => {
                    let have = proj::project(&nb);
                    if &have != want {
                        out.mismatch("C02", "successor", line, fen, json!({"move":t,"pos":want}), json!(have));
                    }
                    *stats.entry("successors").or_insert(0) += 1;
                }
                Err(_) => out.mismatch("C02", "panic-make_move", line, fen, json!({"move":t}), json!("panic")),
            }
        }
    }

    // --- C17: tactical filter, and the set the search examines past the horizon
    match catch_unwind(AssertUnwindSafe(|| mg.generate_quiescence_moves(b))) {
        Ok(q) => {
            let q_set: BTreeSet<String> = texts(&q).into_iter().collect();
            if !exp_chk {
                if q_set != exp_tact {
                    let missing: Vec<&String> = exp_tact.difference(&q_set).collect();
                    let extra: Vec<&String> = q_set.difference(&exp_tact).collect();
                    out.mismatch("C17", "tactical-set", line, fen, json!({"missing_from_engine":missing}), json!({"not_tactical":extra}));
                }
                if q.len() != q_set.len() {
                    out.mismatch("C17", "duplicate", line, fen, json!(q_set.len()), json!(q.len()));
                }
                *stats.entry("tactical_sets").or_insert(0) += 1;
                *stats.entry("tactical_moves").or_insert(0) += q.len() as u64;
            }
        }
        Err(_) => out.mismatch("C17", "panic-generate_quiescence_moves", line, fen, json!(null), json!("panic")),
    }
    for (k, name) in [("ep", "with_ep"), ("cas", "with_castle"), ("pro", "with_promotion"), ("mate", "mates"), ("stale", "stalemates")] {
        if rec["flags"][k].as_bool().unwrap_or(false) {
            *stats.entry(name).or_insert(0) += 1;
        }
    }
    if exp_chk {
        *stats.entry("in_check").or_insert(0) += 1;
    }
}

pub fn replay(args: &[String]) -> i32 {
    let walk = arg(args, "--mode", "bfs") == "walk";
    let mg = MoveGenerator::new();
    let stdin = std::io::stdin();
    let mut out = Out { w: std::io::BufWriter::new(std::io::stdout()), mismatches: 0 };
    let mut stats: BTreeMap<&'static str, u64> = BTreeMap::new();
    let mut line_no = 0u64;
    let mut cur: Option<Board> = None;
    for line in stdin.lock().lines() {
        let line = match line {
            Ok(l) => l,
            Err(_) => break,
        };
        if line.trim().is_empty() {
            continue;
        }
        line_no += 1;
        let rec: Value = match serde_json::from_str(&line) {
            Ok(v) => v,
            Err(e) => {
                eprintln!("bad input line {}: {}", line_no, e);
                return 2;
            }
        };
        let fen = rec["fen"].as_str().unwrap().to_string();
        let ply = rec["ply"].as_u64().unwrap_or(0);
        let board: Board;
        if walk && ply > 0 && cur.is_some() {
            // advance the persistent board with make_move only
            let mut b = cur.unwrap();
            let last = rec["last"].as_str().unwrap();
            let ms = catch_unwind(AssertUnwindSafe(|| mg.generate_moves(&b))).unwrap_or_default();
            match ms.iter().find(|m| proj::move_text(m) == last) {
                Some(m) => {
                    let ok = catch_unwind(AssertUnwindSafe(|| {
                        b.make_move(m);
                    }))
                    .is_ok();
                    let have = if ok { proj::project(&b) } else { "panic".to_string() };
                    if have != fen {
                        out.mismatch("C02", "history", line_no, &fen, json!({"move":last,"pos":fen}), json!(have));
                        *stats.entry("resync").or_insert(0) += 1;
                        b = match proj::build(&fen) {
                            Ok(x) => x,
                            Err(e) => {
                                eprintln!("{}", e);
                                return 2;
                            }
                        };
                    }
                    *stats.entry("walk_steps").or_insert(0) += 1;
                }
                None => {
                    // the move-set mismatch was already reported at the previous state
                    *stats.entry("resync").or_insert(0) += 1;
                    b = match proj::build(&fen) {
                        Ok(x) => x,
                        Err(e) => {
                            eprintln!("{}", e);
                            return 2;
                        }
                    };
                }
            }
            board = b;
        } else {
            board = match proj::build(&fen) {
                Ok(x) => x,
                Err(e) => {
                    eprintln!("{}", e);
                    return 2;
                }
            };
            if walk {
                *stats.entry("walks").or_insert(0) += 1;
            }
        }
        check_state(&mg, &board, &rec, line_no, &mut out, &mut stats);
        cur = Some(board);
    }
    let mut s = serde_json::Map::new();
    s.insert("k".into(), json!("SUMMARY"));
    s.insert("mismatches".into(), json!(out.mismatches));
    for (k, v) in stats {
        s.insert(k.to_string(), json!(v));
    }
    writeln!(out.w, "{}", Value::Object(s)).ok();
    out.w.flush().ok();
    0
}

// ---------------------------------------------------------------------------------------------
// implementation -> specification
// ---------------------------------------------------------------------------------------------

fn probe_event(mg: &MoveGenerator, b: &Board) -> Result<(Value, Vec<Move>), String> {
    let moves = catch_unwind(AssertUnwindSafe(|| mg.generate_moves(b))).map_err(|_| "generate_moves".to_string())?;
    let chk = catch_unwind(AssertUnwindSafe(|| mg.is_in_check(b))).map_err(|_| "is_in_check".to_string())?;
    let q = catch_unwind(AssertUnwindSafe(|| mg.generate_quiescence_moves(b))).map_err(|_| "generate_quiescence_moves".to_string())?;
    Ok((json!({"ev":"probe","legal":texts(&moves),"chk":chk,"q":texts(&q)}), moves))
}

fn random_placement(rng: &mut rand::rngs::StdRng) -> Board {
    // one king each, a few random other pieces, no pawns on the back ranks; rights and e.p. are
    // set only when the placement supports them.  Whether the result is Valid is decided by TLC.
    let mut cs = vec![0i32; 64];
    let mut free: Vec<usize> = (0..64).collect();
    let mut take = |rng: &mut rand::rngs::StdRng, free: &mut Vec<usize>| {
        let i = rng.gen_range(0..free.len());
        free.swap_remove(i)
    };
    // kings, sometimes on their home squares so that castling rights are possible
    let wk = if rng.gen_bool(0.3) { 4 } else { take(rng, &mut free) };
    free.retain(|&s| s != wk);
    cs[wk] = 6;
    let bk = if rng.gen_bool(0.3) && wk != 60 { 60 } else { take(rng, &mut free) };
    free.retain(|&s| s != bk);
    cs[bk] = 12;
    if wk == 4 {
        for r in [0usize, 7] {
            if rng.gen_bool(0.6) && cs[r] == 0 {
                cs[r] = 4;
                free.retain(|&s| s != r);
            }
        }
    }
    if bk == 60 {
        for r in [56usize, 63] {
            if rng.gen_bool(0.6) && cs[r] == 0 {
                cs[r] = 10;
                free.retain(|&s| s != r);
            }
        }
    }
    let extra = rng.gen_range(0..10);
    for _ in 0..extra {
        let s = take(rng, &mut free);
        let kind = [1, 1, 1, 2, 3, 4, 5][rng.gen_range(0..7)];
        let kind = if kind == 1 && (s / 8 == 0 || s / 8 == 7) { 2 } else { kind };
        cs[s] = kind + if rng.gen_bool(0.5) { 6 } else { 0 };
    }
    let stm_white = rng.gen_bool(0.5);
    let mut cr = String::new();
    if cs[4] == 6 && cs[7] == 4 && rng.gen_bool(0.8) {
        cr.push('K');
    }
    if cs[4] == 6 && cs[0] == 4 && rng.gen_bool(0.8) {
        cr.push('Q');
    }
    if cs[60] == 12 && cs[63] == 10 && rng.gen_bool(0.8) {
        cr.push('k');
    }
    if cs[60] == 12 && cs[56] == 10 && rng.gen_bool(0.8) {
        cr.push('q');
    }
    // e.p.: find a pawn of the side that just moved on its 4th rank with two empty squares behind
    let mut ep = None;
    let cands: Vec<usize> = (0..8)
        .filter(|&f| {
            if stm_white {
                cs[32 + f] == 7 && cs[40 + f] == 0 && cs[48 + f] == 0
            } else {
                cs[24 + f] == 1 && cs[16 + f] == 0 && cs[8 + f] == 0
            }
        })
        .collect();
    if !cands.is_empty() && rng.gen_bool(0.7) {
        let f = cands[rng.gen_range(0..cands.len())];
        ep = Some(if stm_white { 40 + f } else { 16 + f } as u8);
    }
    proj::build_from(&cs, stm_white, &cr, ep)
}

pub fn record(args: &[String]) -> i32 {
    let seed: u64 = arg(args, "--seed", "1").parse().unwrap();
    let games: usize = arg(args, "--games", "4").parse().unwrap();
    let plies: usize = arg(args, "--plies", "60").parse().unwrap();
    let synth: usize = arg(args, "--synthetic", "0").parse().unwrap();
    let synth_plies: usize = arg(args, "--synthetic-plies", "3").parse().unwrap();
    let seeds_file = arg(args, "--seeds", "");
    let mut starts: Vec<String> = vec![];
    if !seeds_file.is_empty() {
        for l in std::fs::read_to_string(&seeds_file).unwrap_or_default().lines() {
            if let Ok(v) = serde_json::from_str::<Value>(l) {
                if let Some(f) = v["fen"].as_str() {
                    starts.push(f.to_string());
                }
            }
        }
    }
    let mg = MoveGenerator::new();
    let mut rng = rand::rngs::StdRng::seed_from_u64(seed);
    let mut w = std::io::BufWriter::new(std::io::stdout());
    let forced = arg(args, "--forced", "");
    if !forced.is_empty() {
        // replay of one recorded game: same start, same moves, events re-recorded from the current code
        let v: Value = serde_json::from_str(&std::fs::read_to_string(&forced).unwrap()).unwrap();
        let mut b = proj::build_struct(&v["pos"]);
        writeln!(w, "{}", json!({"ev":"reset","src":"forced","pos":proj::project_struct(&b)})).ok();
        let mut list: Vec<String> = v["moves"].as_array().unwrap().iter().map(|x| x.as_str().unwrap().to_string()).collect();
        list.push(String::new());
        for want in list {
            let (ev, moves) = match probe_event(&mg, &b) {
                Ok(x) => x,
                Err(wh) => {
                    writeln!(w, "{}", json!({"ev":"panic","where":wh})).ok();
                    break;
                }
            };
            writeln!(w, "{}", ev).ok();
            let m = match moves.iter().find(|m| proj::move_text(m) == want) {
                Some(m) => *m,
                None => break,
            };
            if catch_unwind(AssertUnwindSafe(|| b.make_move(&m))).is_err() {
                writeln!(w, "{}", json!({"ev":"panic","where":"make_move"})).ok();
                break;
            }
            writeln!(w, "{}", json!({"ev":"move","uci":proj::move_text(&m),"pos":proj::project_struct(&b)})).ok();
        }
        w.flush().ok();
        return 0;
    }
    let mut play = |b0: Board, src: &str, n: usize, rng: &mut rand::rngs::StdRng, w: &mut std::io::BufWriter<std::io::Stdout>| {
        let mut b = b0;
        writeln!(w, "{}", json!({"ev":"reset","src":src,"pos":proj::project_struct(&b)})).ok();
        for _ in 0..=n {
            let (ev, moves) = match probe_event(&mg, &b) {
                Ok(x) => x,
                Err(wh) => {
                    writeln!(w, "{}", json!({"ev":"panic","where":wh})).ok();
                    return;
                }
            };
            writeln!(w, "{}", ev).ok();
            if moves.is_empty() {
                return;
            }
            // prefer captures / specials now and then so that material comes off and rights change
            let special: Vec<&Move> = moves.iter().filter(|m| m.move_type != MoveType::Quiet).collect();
            let m = if !special.is_empty() && rng.gen_bool(0.45) {
                *special[rng.gen_range(0..special.len())]
            } else {
                moves[rng.gen_range(0..moves.len())]
            };
            if catch_unwind(AssertUnwindSafe(|| b.make_move(&m))).is_err() {
                writeln!(w, "{}", json!({"ev":"panic","where":"make_move"})).ok();
                return;
            }
            writeln!(w, "{}", json!({"ev":"move","uci":proj::move_text(&m),"pos":proj::project_struct(&b)})).ok();
        }
    };
    for g in 0..games {
        let b = if starts.is_empty() || g % 3 == 0 {
            Board::default()
        } else {
            match proj::build(&starts[rng.gen_range(0..starts.len())]) {
                Ok(b) => b,
                Err(e) => {
                    eprintln!("{}", e);
                    return 2;
                }
            }
        };
        play(b, "game", plies, &mut rng, &mut w);
    }
    for _ in 0..synth {
        let b = random_placement(&mut rng);
        play(b, "synthetic", synth_plies, &mut rng, &mut w);
    }
    w.flush().ok();
    0
}
