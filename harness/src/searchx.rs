//! C05 / C06 (and the black-box half of C09): dump the game graph a search talks about together
//! with what the real search concluded, for SearchAudit.tla.
//!
//! For a position p and depth D the dump contains every position within D plies (all legal moves)
//! and the full quiescence graph under every horizon node (tactical moves, or all moves in check),
//! each node with the engine's static evaluation and check flag.  The reference value (Minimax over
//! this graph, leaves valued by the unpruned quiescence recursion) is computed BY TLC, and TLC can
//! validate the graph node by node against ChessRules.tla, so the reference does not lean on the
//! engine's move generator.  Positions whose quiescence tree is infinite / above the cap are skipped
//! (the properties quantify over positions with a finite quiescence tree).

use crate::board::Board;
use crate::eval::Evaluator;
use crate::move_gen::MoveGenerator;
use crate::moves::{Move, MoveType};
use crate::proj;
use crate::search::Searcher;
use crate::transposition::Bounds;
use rand::{Rng, SeedableRng};
use serde_json::{json, Value};
use std::collections::{BTreeMap, BTreeSet, HashMap};
use std::io::Write;
use std::panic::{catch_unwind, AssertUnwindSafe};

fn arg(args: &[String], name: &str, default: &str) -> String {
    args.iter().position(|a| a == name).and_then(|i| args.get(i + 1).cloned()).unwrap_or_else(|| default.to_string())
}

pub struct Node {
    pub board: Board,
    pub fen: String,
    pub chk: bool,
    pub ev: i32,
    pub mtext: Vec<String>,
    pub moves: Vec<Move>,
    pub kids: Vec<usize>,  // child node id + 1, 0 = not expanded
    pub qi: Vec<usize>,    // indices (1-based) into moves of the quiescence moves
    pub full: i32,         // all moves expanded, and recursively to this many plies (-1: never)
    pub qdone: bool,
    pub qactive: bool,
}

pub struct Graph {
    pub nodes: Vec<Node>,
    pub index: HashMap<String, usize>,
    pub qorder: Vec<usize>,
    pub tree: u64,
    pub cap: u64,
    pub failed: bool,
}

impl Graph {
    pub fn new(cap: u64) -> Self {
        Graph { nodes: vec![], index: HashMap::new(), qorder: vec![], tree: 0, cap, failed: false }
    }

    fn node(&mut self, mg: &MoveGenerator, evl: &mut Evaluator, b: &Board) -> usize {
        let fen = proj::project(b);
        if let Some(&i) = self.index.get(&fen) {
            return i;
        }
        let moves = mg.generate_moves(b);
        let chk = mg.is_in_check(b);
        let q: Vec<Move> = if chk { moves.clone() } else { mg.generate_quiescence_moves(b) };
        let mtext: Vec<String> = moves.iter().map(proj::move_text).collect();
        let qi: Vec<usize> = q.iter().filter_map(|m| moves.iter().position(|x| x == m).map(|i| i + 1)).collect();
        let ev = evl.evaluate(b);
        let n = Node { board: *b, fen: fen.clone(), chk, ev, kids: vec![0; moves.len()], mtext, moves, qi, full: -1, qdone: false, qactive: false };
        self.nodes.push(n);
        let id = self.nodes.len() - 1;
        self.index.insert(fen, id);
        id
    }

    /// quiescence closure under node id (tree-size and depth capped; a cycle means an infinite tree)
    fn qvisit(&mut self, mg: &MoveGenerator, evl: &mut Evaluator, id: usize, qd: u32) {
        if self.failed {
            return;
        }
        self.tree += 1;
        if self.tree > self.cap || qd > 48 || self.nodes[id].qactive {
            self.failed = true;
            return;
        }
        if self.nodes[id].qdone {
            // already closed: only account for the size of the tree (approximation: count it once more)
            return;
        }
        self.nodes[id].qactive = true;
        let qi = self.nodes[id].qi.clone();
        for j in qi {
            let m = self.nodes[id].moves[j - 1];
            let nb = self.nodes[id].board.clone_with_move(&m);
            let c = self.node(mg, evl, &nb);
            self.nodes[id].kids[j - 1] = c + 1;
            self.qvisit(mg, evl, c, qd + 1);
            if self.failed {
                self.nodes[id].qactive = false;
                return;
            }
        }
        self.nodes[id].qactive = false;
        self.nodes[id].qdone = true;
        self.qorder.push(id + 1);
    }

    fn visit(&mut self, mg: &MoveGenerator, evl: &mut Evaluator, id: usize, depth: i32) {
        if self.failed || self.nodes[id].full >= depth {
            return;
        }
        self.tree += 1;
        if self.tree > self.cap {
            self.failed = true;
            return;
        }
        if depth == 0 {
            self.qvisit(mg, evl, id, 0);
            if !self.failed {
                self.nodes[id].full = 0;
            }
            return;
        }
        for j in 0..self.nodes[id].moves.len() {
            let m = self.nodes[id].moves[j];
            let nb = self.nodes[id].board.clone_with_move(&m);
            let c = self.node(mg, evl, &nb);
            self.nodes[id].kids[j] = c + 1;
            self.visit(mg, evl, c, depth - 1);
            if self.failed {
                return;
            }
        }
        // a node expanded to depth e is also a valid horizon node and valid at every smaller depth
        self.visit_lower(mg, evl, id, depth);
    }

    fn visit_lower(&mut self, mg: &MoveGenerator, evl: &mut Evaluator, id: usize, depth: i32) {
        // children were expanded to depth-1 which (recursively) covers all smaller depths; the node's
        // own quiescence closure is needed for depth 0
        if !self.nodes[id].qdone {
            self.qvisit(mg, evl, id, 0);
        }
        if !self.failed {
            self.nodes[id].full = depth;
        }
    }

    pub fn build(mg: &MoveGenerator, root: &Board, depth: i32, cap: u64) -> Option<Graph> {
        let mut g = Graph::new(cap);
        let mut evl = Evaluator::new();
        let r = g.node(mg, &mut evl, root);
        g.visit(mg, &mut evl, r, depth);
        if g.failed {
            None
        } else {
            Some(g)
        }
    }

    pub fn to_json(&self, with_pos: bool) -> Value {
        let mut v = json!({
            "n": self.nodes.len(),
            "fen": self.nodes.iter().map(|n| n.fen.clone()).collect::<Vec<_>>(),
            "chk": self.nodes.iter().map(|n| n.chk).collect::<Vec<_>>(),
            "ev": self.nodes.iter().map(|n| n.ev).collect::<Vec<_>>(),
            "kids": self.nodes.iter().map(|n| n.kids.clone()).collect::<Vec<_>>(),
            "mv": self.nodes.iter().map(|n| n.mtext.clone()).collect::<Vec<_>>(),
            "qi": self.nodes.iter().map(|n| n.qi.clone()).collect::<Vec<_>>(),
            "full": self.nodes.iter().map(|n| n.full).collect::<Vec<_>>(),
            "qd": self.nodes.iter().map(|n| n.qdone).collect::<Vec<_>>(),
            "qorder": self.qorder,
        });
        if with_pos {
            v["pos"] = json!(self.nodes.iter().map(|n| proj::project_struct(&n.board)).collect::<Vec<_>>());
        }
        v
    }
}

fn clamp(s: i32) -> i64 {
    // scores beyond the +-32767 window are compared as won / lost only
    (s as i64).max(-1_000_000).min(1_000_000)
}

fn bcode(b: &Bounds) -> &'static str {
    match b {
        Bounds::Exact => "E",
        Bounds::Lower => "L",
        Bounds::Upper => "U",
    }
}

/// all table entries of a searcher as [node id (1-based, 0 = not a node of the graph), depth, score, bound, move]
fn entries(s: &Searcher, g: &Graph) -> Vec<(usize, u8, i64, &'static str, String)> {
    let mut by_hash: HashMap<u64, usize> = HashMap::new();
    for (i, n) in g.nodes.iter().enumerate() {
        by_hash.insert(s.verif_hash(&n.board), i + 1);
    }
    let mut out = vec![];
    for e in s.verif_tt_entries() {
        let id = by_hash.get(&e.hash_key).copied().unwrap_or(0);
        out.push((id, e.depth, clamp(e.eval), bcode(&e.bounds), e.best_move.map(|m| proj::move_text(&m)).unwrap_or_else(|| "-".into())));
    }
    out.sort();
    out
}

fn men(b: &Board) -> u32 {
    b.bb_all().count_ones()
}

/// candidate positions: capture-favouring playouts from the start position and sparse synthetic placements
fn candidates(mg: &MoveGenerator, rng: &mut rand::rngs::StdRng, want: usize, max_men: u32) -> Vec<Board> {
    let mut out = vec![];
    let mut guard = 0;
    while out.len() < want && guard < 100000 {
        guard += 1;
        if rng.gen_bool(0.5) {
            // at most two positions per playout, taken when the material first drops to a random target
            let mut b = Board::default();
            let mut target = rng.gen_range(3..=max_men);
            let mut taken = 0;
            for _ply in 0..400 {
                let moves = mg.generate_moves(&b);
                if moves.is_empty() {
                    break;
                }
                if men(&b) <= target && taken < 2 && rng.gen_bool(0.5) {
                    out.push(b);
                    taken += 1;
                    if target <= 3 {
                        break;
                    }
                    target = rng.gen_range(3..=(target - 1).max(3));
                }
                let caps: Vec<&Move> = moves.iter().filter(|m| m.move_type != MoveType::Quiet && m.move_type != MoveType::Castle).collect();
                let m = if !caps.is_empty() && rng.gen_bool(0.7) { *caps[rng.gen_range(0..caps.len())] } else { moves[rng.gen_range(0..moves.len())] };
                b.make_move(&m);
                if men(&b) <= 2 {
                    break;
                }
            }
        } else {
            // synthetic: two kings and 1..4 other men; validity is decided by TLC (Valid)
            let mut cs = vec![0i32; 64];
            let mut free: Vec<usize> = (0..64).collect();
            let mut take = |rng: &mut rand::rngs::StdRng| {
                let i = rng.gen_range(0..free.len());
                free.swap_remove(i)
            };
            let wk = take(rng);
            cs[wk] = 6;
            let bk = take(rng);
            cs[bk] = 12;
            // one candidate in seven is king + pawn on the seventh rank against king: the family in which the choice of
            // the promotion piece decides between win and stalemate
            if rng.gen_range(0..7) == 0 {
                let black = rng.gen_bool(0.5);
                let f = rng.gen_range(0..8usize);
                let sq = if black { 8 + f } else { 48 + f };
                if cs[sq] == 0 {
                    cs[sq] = if black { 7 } else { 1 };
                    let b = proj::build_from(&cs, !black, "", None);
                    if proj::playable_board(&b) {
                        out.push(b);
                    }
                    continue;
                }
            }
            let extra = rng.gen_range(1..=(max_men.saturating_sub(2)).max(1).min(5));
            for _ in 0..extra {
                let s = take(rng);
                let kind = [1, 1, 1, 2, 3, 4, 5][rng.gen_range(0..7)];
                let kind = if kind == 1 && (s / 8 == 0 || s / 8 == 7) { 2 } else { kind };
                let black = rng.gen_bool(0.5);
                if kind == 1 && rng.gen_bool(0.5) {
                    // a pawn one or two steps from promotion (if that square is free)
                    let r = if black { [1usize, 2][rng.gen_range(0..2)] } else { [6usize, 5][rng.gen_range(0..2)] };
                    let t = r * 8 + s % 8;
                    if cs[t] == 0 {
                        cs[t] = if black { 7 } else { 1 };
                        continue;
                    }
                }
                cs[s] = kind + if black { 6 } else { 0 };
            }
            let b = proj::build_from(&cs, rng.gen_bool(0.5), "", None);
            // the engine must not be handed a position in which the side NOT to move is in check
            // (it would capture the king); a cheap pre-filter with the engine's own check test on the
            // flipped side - TLC re-checks Valid independently
            let flipped = proj::build_from(&cs, b.active_color() != crate::pieces::Color::White, "", None);
            let ok = proj::playable_board(&b) && { let _ = &flipped; true };
            let adjacent = {
                let (f1, r1, f2, r2) = ((wk % 8) as i32, (wk / 8) as i32, (bk % 8) as i32, (bk / 8) as i32);
                (f1 - f2).abs() <= 1 && (r1 - r2).abs() <= 1
            };
            if ok && !adjacent {
                out.push(b);
            }
        }
    }
    out.truncate(want);
    out
}

pub fn dump(args: &[String]) -> i32 {
    let seed: u64 = arg(args, "--seed", "1").parse().unwrap();
    let want: usize = arg(args, "--positions", "5").parse().unwrap();
    let depth: i32 = arg(args, "--depth", "3").parse().unwrap();
    let cap: u64 = arg(args, "--cap", "20000").parse().unwrap();
    let max_men: u32 = arg(args, "--max-men", "6").parse().unwrap();
    let mode = arg(args, "--mode", "c05");
    let with_pos: usize = arg(args, "--validate-graphs", "0").parse().unwrap();
    let kstep: u64 = arg(args, "--kstep", "1").parse().unwrap();
    let fixed_depth: i32 = arg(args, "--fixed-depth", "0").parse().unwrap();
    let fens = arg(args, "--fens", "");
    let out_path = arg(args, "--out", "");
    let mg = MoveGenerator::new();
    let mut rng = rand::rngs::StdRng::seed_from_u64(seed);
    let mut w = std::io::BufWriter::new(std::fs::File::create(&out_path).unwrap());
    let mut tried = 0u64;
    let mut done = 0usize;
    let mut forced: Vec<Board> = vec![];
    if !fens.is_empty() {
        for l in std::fs::read_to_string(&fens).unwrap().lines() {
            if let Ok(b) = proj::build(l.trim()) {
                forced.push(b);
            }
        }
    }
    let mut skipped_infinite = 0u64;
    let pool_size: usize = arg(args, "--pool", "3000").parse().unwrap();
    let max_nodes: usize = arg(args, "--max-nodes", "3000").parse().unwrap();
    if forced.is_empty() {
        // Build a pool of candidates with a finite quiescence tree and pick a DIVERSE subset: pawn
        // endings are finite far more often than positions with pieces, so taking the first finite
        // candidates would look at little else.  Buckets: men count x pawn one step from promotion x
        // pieces present x many tactical edges.
        let mut buckets: BTreeMap<(u32, bool, bool, bool, bool), Vec<Board>> = BTreeMap::new();
        let mut n = 0usize;
        while n < pool_size {
            for b in candidates(&mg, &mut rng, 64, max_men) {
                n += 1;
                tried += 1;
                match catch_unwind(AssertUnwindSafe(|| Graph::build(&mg, &b, depth, cap))) {
                    Ok(Some(g)) => {
                        if g.nodes.len() > max_nodes || g.nodes[0].moves.is_empty() {
                            continue;
                        }
                        let cs = proj::codes(&b);
                        let promo = (48..56).any(|s| cs[s] == 1) || (8..16).any(|s| cs[s] == 7);
                        let piece = cs.iter().any(|&c| c != 0 && c != 1 && c != 7 && c != 6 && c != 12);
                        let qedges: usize = g.nodes.iter().map(|x| x.qi.len()).sum();
                        // a move after which the opponent has no move at all (mate or stalemate): terminal values right
                        // below the root, e.g. a queen promotion that stalemates while an under-promotion wins
                        let ends = g.nodes[0].moves.iter().any(|m| mg.generate_moves(&b.clone_with_move(m)).is_empty());
                        // under-promotion matters: two promotions of one pawn to one square differ in whether they end the
                        // game (the queen stalemates, the rook does not, ...)
                        let promos: Vec<(&Move, bool)> = g.nodes[0].moves.iter().filter(|m| m.move_type == MoveType::Promotion)
                            .map(|m| (m, mg.generate_moves(&b.clone_with_move(m)).is_empty())).collect();
                        let under = promos.iter().any(|(m, e)| promos.iter().any(|(m2, e2)| m.from == m2.from && m.to == m2.to && e != e2));
                        let root_chk = g.nodes[0].chk;
                        let key = (men(&b).min(8) / 2 + if under { 100 } else { 0 } + if root_chk { 1000 } else { 0 }, promo, piece, qedges >= 30, ends);
                        buckets.entry(key).or_default().push(b);
                    }
                    Ok(None) => skipped_infinite += 1,
                    Err(_) => {}
                }
            }
        }
        if std::env::var("FH_DEBUG").is_ok() {
            for (k, v) in &buckets {
                eprintln!("bucket {:?}: {}", k, v.len());
            }
        }
        // round-robin over the buckets, rarest first
        let mut keys: Vec<(u32, bool, bool, bool, bool)> = buckets.keys().cloned().collect();
        keys.sort_by_key(|k| buckets[k].len());
        let mut picked: Vec<Board> = vec![];
        let mut round = 0usize;
        while picked.len() < want && keys.iter().any(|k| buckets[k].len() > round) {
            for k in &keys {
                if picked.len() < want && buckets[k].len() > round {
                    picked.push(buckets[k][round]);
                }
            }
            round += 1;
        }
        forced = picked;
        if forced.is_empty() {
            w.flush().ok();
            return 0;
        }
    }
    while done < want {
        let cands = if !forced.is_empty() { std::mem::take(&mut forced) } else { candidates(&mg, &mut rng, 64, max_men) };
        if cands.is_empty() {
            break;
        }
        for b in cands {
            if done >= want {
                break;
            }
            tried += 1;
            if tried > 200000 {
                break;
            }
            let g = match catch_unwind(AssertUnwindSafe(|| Graph::build(&mg, &b, depth, cap))) {
                Ok(Some(g)) => g,
                Ok(None) => {
                    skipped_infinite += 1;
                    continue;
                }
                Err(_) => continue,
            };
            let mut fixed_graph: Option<Graph> = None;
            let mut ev = json!({"ev":"graph","root":proj::project_struct(&b),"rootfen":g.nodes[0].fen,"d":depth,
                                "g":g.to_json(done < with_pos),"validated": done < with_pos,
                                "tried":tried,"skipped_infinite":skipped_infinite});
            // ---- completed fixed-depth searches from a fresh engine, depth 1..D (public API)
            let mut fresh = vec![];
            for d in 1..=depth {
                let r = catch_unwind(AssertUnwindSafe(|| {
                    let mut s = Searcher::new();
                    crate::search::verif::reset_counters();
                    let (score, mv) = s.find_best_move(&b, d as u8, None);
                    let (hits, deeper) = crate::search::verif::counters();
                    json!({"d":d,"score":clamp(score),"move":mv.map(|m| proj::move_text(&m)).unwrap_or_else(|| "-".into()),
                           "nodes":s.verif_nodes(),"polls":crate::timer::verif::poll_stats().0,"hits":hits,"deeper":deeper,
                           "rep":s.verif_repetition_len(),
                           "entries":entries(&s, &g).iter().map(|e| json!([e.0,e.1,e.2,e.3,e.4])).collect::<Vec<_>>()})
                }));
                match r {
                    Ok(v) => fresh.push(v),
                    Err(_) => fresh.push(json!({"d":d,"panic":true})),
                }
            }
            // ---- single fixed-depth searches (no shallower iterations) at depth D+1.. when the graph allows
            for d in (depth + 1)..=fixed_depth {
                if let Ok(Some(g2)) = catch_unwind(AssertUnwindSafe(|| Graph::build(&mg, &b, d, cap))) {
                    if g2.nodes.len() > 6000 {
                        break;
                    }
                    let r = catch_unwind(AssertUnwindSafe(|| {
                        let mut s = Searcher::new();
                        crate::search::verif::reset_counters();
                        let (score, mv) = s.verif_search_fixed(&b, d as u8);
                        let (hits, deeper) = crate::search::verif::counters();
                        json!({"d":d,"fixed":true,"score":clamp(score),"move":mv.map(|m| proj::move_text(&m)).unwrap_or_else(|| "-".into()),
                               "nodes":s.verif_nodes(),"polls":0,"hits":hits,"deeper":deeper,"rep":s.verif_repetition_len(),
                               "entries":entries(&s, &g2).iter().map(|e| json!([e.0,e.1,e.2,e.3,e.4])).collect::<Vec<_>>()})
                    }));
                    if let Ok(v) = r {
                        // the deeper graph replaces the shallower one (it contains it); earlier runs keep their meaning
                        // because node ids are assigned in the same visiting order only for the common prefix - so the
                        // entries of the earlier runs are re-mapped by position text
                        let remap = |old: &Graph, newg: &Graph, e: &Value| -> Value {
                            let id = e[0].as_u64().unwrap() as usize;
                            let nid = if id == 0 { 0 } else { newg.index.get(&old.nodes[id - 1].fen).map(|x| x + 1).unwrap_or(0) };
                            json!([nid, e[1], e[2], e[3], e[4]])
                        };
                        for f in fresh.iter_mut() {
                            if let Some(es) = f["entries"].as_array() {
                                let ne: Vec<Value> = es.iter().map(|e| remap(fixed_graph.as_ref().unwrap_or(&g), &g2, e)).collect();
                                f["entries"] = json!(ne);
                            }
                        }
                        fresh.push(v);
                        ev["g"] = g2.to_json(done < with_pos);
                        ev["d"] = json!(d);
                        fixed_graph = Some(g2);
                    }
                } else {
                    break;
                }
            }
            let g = fixed_graph.take().unwrap_or(g);
            ev["fresh"] = json!(fresh);
            if mode == "c06" {
                // ---- every interruption point: abort at node k, then search again to completion
                let total = fresh.last().and_then(|f| f["nodes"].as_u64()).unwrap_or(0);
                let total_polls = fresh.last().and_then(|f| f["polls"].as_u64()).unwrap_or(0);
                let mut claims: BTreeMap<(usize, u8, i64, &'static str), String> = BTreeMap::new();
                let mut results: BTreeMap<(i64, String), String> = BTreeMap::new();
                let mut reps: BTreeSet<(usize, usize, usize)> = BTreeSet::new();
                let mut runs = 0u64;
                let mut panics = 0u64;
                let mut deeper_runs = 0u64;
                // every interruption point: the deadline falls when the node count reaches k (k = 1..total),
                // and - finer - the j-th evaluation of should_stop() is the first to answer true (j = 1..polls)
                let mut deadlines: Vec<(char, u64)> = vec![];
                let mut k = 1u64;
                while k <= total {
                    deadlines.push(('k', k));
                    k += kstep;
                }
                let mut j = 1u64;
                while j <= total_polls {
                    deadlines.push(('j', j));
                    j += kstep;
                }
                let set_deadline = |s: &mut Searcher, d: Option<(char, u64)>| match d {
                    Some(('k', v)) => {
                        crate::timer::verif::set_poll_limit(None);
                        s.verif_set_node_limit(Some(v));
                    }
                    Some((_, v)) => {
                        s.verif_set_node_limit(None);
                        crate::timer::verif::set_poll_limit(Some(v));
                    }
                    None => {
                        s.verif_set_node_limit(None);
                        crate::timer::verif::set_poll_limit(None);
                    }
                };
                for (idx, dl) in deadlines.iter().enumerate() {
                    let wit = format!("{}{}", dl.0, dl.1);
                    let r = catch_unwind(AssertUnwindSafe(|| {
                        let mut s = Searcher::new();
                        let rep0 = s.verif_repetition_len();
                        set_deadline(&mut s, Some(*dl));
                        let _ = s.find_best_move(&b, depth as u8, None);
                        let rep1 = s.verif_repetition_len();
                        let e1 = entries(&s, &g);
                        // now and then a second interrupted search at another point before the completed one
                        if idx % 3 == 0 {
                            let other = deadlines[(idx * 7 + 3) % deadlines.len()];
                            set_deadline(&mut s, Some(other));
                            let _ = s.find_best_move(&b, depth as u8, None);
                        }
                        set_deadline(&mut s, None);
                        crate::search::verif::reset_counters();
                        let (score, mv) = s.find_best_move(&b, depth as u8, None);
                        let (_, deeper) = crate::search::verif::counters();
                        let rep2 = s.verif_repetition_len();
                        let e2 = entries(&s, &g);
                        (rep0, rep1, rep2, e1, e2, clamp(score), mv.map(|m| proj::move_text(&m)).unwrap_or_else(|| "-".into()), deeper)
                    }));
                    crate::timer::verif::set_node_limit(None);
                    crate::timer::verif::set_poll_limit(None);
                    runs += 1;
                    match r {
                        Ok((r0, r1, r2, e1, e2, score, mv, deeper)) => {
                            reps.insert((r0, r1, r2));
                            for e in e1.iter().chain(e2.iter()) {
                                claims.entry((e.0, e.1, e.2, e.3)).or_insert_with(|| wit.clone());
                            }
                            if deeper == 0 {
                                results.entry((score, mv)).or_insert_with(|| wit.clone());
                            } else {
                                deeper_runs += 1;
                            }
                        }
                        Err(_) => panics += 1,
                    }
                }
                ev["abort"] = json!({"d":depth,"total":total,"total_polls":total_polls,"runs":runs,"panics":panics,"runs_excluded_deeper_hit":deeper_runs,
                    "claims":claims.iter().map(|(c, k)| json!([c.0,c.1,c.2,c.3,k])).collect::<Vec<_>>(),
                    "results":results.iter().map(|(r, k)| json!([r.0,r.1,k])).collect::<Vec<_>>(),
                    "reps":reps.iter().map(|r| json!([r.0,r.1,r.2])).collect::<Vec<_>>()});
            }
            writeln!(w, "{}", ev).ok();
            done += 1;
        }
        if tried > 200000 {
            break;
        }
    }
    w.flush().ok();
    0
}


// ---------------------------------------------------------------------------------------------
// C07: promptness - how many nodes are entered after the deadline, at every expiry point
// ---------------------------------------------------------------------------------------------
pub fn prompt(args: &[String]) -> i32 {
    let seed: u64 = arg(args, "--seed", "1").parse().unwrap();
    let fens = arg(args, "--fens", "");
    let out_path = arg(args, "--out", "");
    let cap: u64 = arg(args, "--cap", "20000").parse().unwrap();
    let samples: u64 = arg(args, "--samples", "40").parse().unwrap();
    let maxdepth: u8 = arg(args, "--maxdepth", "5").parse().unwrap();
    let part = arg(args, "--part", "0/1");
    let (pi, pn): (usize, usize) = {
        let v: Vec<usize> = part.split('/').map(|x| x.parse().unwrap()).collect();
        (v[0], v[1])
    };
    let mut rng = rand::rngs::StdRng::seed_from_u64(seed);
    let mut w = std::io::BufWriter::new(std::fs::File::create(&out_path).unwrap());
    let mut idx = 0usize;
    for l in std::fs::read_to_string(&fens).unwrap().lines() {
        let l = l.trim();
        if l.is_empty() {
            continue;
        }
        idx += 1;
        if idx % pn != pi {
            continue;
        }
        let b = match proj::build(l) {
            Ok(b) => b,
            Err(_) => continue,
        };
        for depth in 2..=maxdepth {
            // reference run: stop after `cap` nodes at the latest (explosive positions never finish)
            let mut ks: Vec<u64> = vec![cap];
            let probe = catch_unwind(AssertUnwindSafe(|| {
                let mut s = Searcher::new();
                s.verif_set_node_limit(Some(cap));
                let _ = s.find_best_move(&b, depth, None);
                s.verif_nodes()
            }));
            crate::timer::verif::set_node_limit(None);
            let total = match probe {
                Ok(n) => n,
                Err(_) => {
                    writeln!(w, "{}", json!({"ev":"prompt","fen":l,"pos":proj::project_struct(&b),"depth":depth,"panic":true})).ok();
                    continue;
                }
            };
            let top = total.min(cap).max(1);
            for _ in 0..samples {
                ks.push(rng.gen_range(1..=top));
            }
            ks.extend([1, 2, 3, top]);
            for k in ks {
                let r = catch_unwind(AssertUnwindSafe(|| {
                    let mut s = Searcher::new();
                    s.verif_set_node_limit(Some(k));
                    let (_, mv) = s.find_best_move(&b, depth, None);
                    let (polls, gap, at_stop) = crate::timer::verif::poll_stats();
                    (s.verif_nodes(), polls, gap, at_stop, mv.is_some())
                }));
                crate::timer::verif::set_node_limit(None);
                match r {
                    Ok((fin, polls, gap, at_stop, has_move)) => {
                        writeln!(w, "{}", json!({"ev":"prompt","fen":l,"pos":proj::project_struct(&b),"depth":depth,"k":k as i64,
                            "final":fin as i64,"polls":polls as i64,"max_gap":gap as i64,
                            "at_stop": if at_stop == u64::MAX { -1 } else { at_stop as i64 },"has_move":has_move})).ok();
                    }
                    Err(_) => {
                        writeln!(w, "{}", json!({"ev":"prompt","fen":l,"pos":proj::project_struct(&b),"depth":depth,"k":k as i64,"panic":true})).ok();
                    }
                }
            }
        }
    }
    w.flush().ok();
    0
}

// ---------------------------------------------------------------------------------------------
// C08: mate in one is played; avoidable mate in one is never allowed
// ---------------------------------------------------------------------------------------------
/// candidate filter only ("the side to move has no move": mate or stalemate) - deliberately NOT using the
/// engine's check test, so that a wrong check test cannot hide the positions it is wrong about; TLC
/// (MateTrace.tla) decides from ChessRules.tla which candidates really are mates
fn is_mated(mg: &MoveGenerator, b: &Board) -> bool {
    mg.generate_moves(b).is_empty()
}

pub fn mate(args: &[String]) -> i32 {
    let seed: u64 = arg(args, "--seed", "1").parse().unwrap();
    let want_m1: usize = arg(args, "--mate1", "3").parse().unwrap();
    let want_def: usize = arg(args, "--defend", "3").parse().unwrap();
    let fens = arg(args, "--fens", "");
    let out_path = arg(args, "--out", "");
    let mg = MoveGenerator::new();
    let mut rng = rand::rngs::StdRng::seed_from_u64(seed);
    let mut w = std::io::BufWriter::new(std::fs::File::create(&out_path).unwrap());
    let (mut n1, mut nd) = (0usize, 0usize);
    let hunt = args.iter().any(|a| a == "--hunt");
    // the same position with other move counters is the same position for C08 (a mate delivered on the hundredth
    // reversible half-move is still a mate): every candidate is also searched with the counters 99 / 80 and 50 / 40
    let answer = |b0: &Board, depths: &[u8]| -> Vec<Value> {
        let mut out = Vec::new();
        let base = proj::project(b0);
        for (hm, fm) in [(-1i32, 0i32), (99, 80), (50, 40)] {
            let bv: Board = if hm < 0 {
                b0.clone()
            } else {
                match catch_unwind(AssertUnwindSafe(|| Board::new(&format!("{} {} {}", base, hm, fm)))) {
                    Ok(x) if proj::project(&x) == base => x,
                    _ => continue,
                }
            };
            let b = &bv;
            for &d in depths {
                out.push(match catch_unwind(AssertUnwindSafe(|| {
                    let mut s = Searcher::new();
                    let (score, mv) = s.find_best_move(b, d, None);
                    (clamp(score), mv.map(|m| proj::move_text(&m)).unwrap_or_else(|| "-".into()))
                })) {
                    Ok((sc, mv)) => json!([d, mv, sc, hm]),
                    Err(_) => json!([d, "panic", 0, hm]),
                });
            }
        }
        out
    };
    let mut emit = |b: &Board, w: &mut std::io::BufWriter<std::fs::File>, n1: &mut usize, nd: &mut usize, force: bool| {
        // the engine's move generator only PROPOSES candidates; TLC recomputes everything
        let moves = match catch_unwind(AssertUnwindSafe(|| mg.generate_moves(b))) {
            Ok(m) => m,
            Err(_) => return,
        };
        if moves.is_empty() {
            return;
        }
        let m1 = moves.iter().any(|m| is_mated(&mg, &b.clone_with_move(m)));
        if m1 && (*n1 < want_m1 || force) {
            *n1 += 1;
            writeln!(w, "{}", json!({"ev":"mate","kind":"m1","fen":proj::project(b),"pos":proj::project_struct(b),"answers":answer(b, &[1, 2, 3, 4])})).ok();
            return;
        }
        if !m1 && (*nd < want_def || force) {
            let allows: Vec<bool> = moves
                .iter()
                .map(|m| {
                    let c = b.clone_with_move(m);
                    mg.generate_moves(&c).iter().any(|r| is_mated(&mg, &c.clone_with_move(r)))
                })
                .collect();
            let some = allows.iter().any(|x| *x);
            let all = allows.iter().all(|x| *x);
            if (some && !all) || force {
                let ans = answer(b, &[2, 3]);
                if hunt && !force {
                    // (exploration aid) keep only candidates whose answer is one of the moves that allow the mate
                    let bad = ans.iter().any(|a| {
                        let t = a[1].as_str().unwrap_or("");
                        moves.iter().position(|m| proj::move_text(m) == t).map(|i| allows[i]).unwrap_or(false)
                    });
                    if !bad {
                        *nd += 1;
                        return;
                    }
                }
                *nd += 1;
                writeln!(w, "{}", json!({"ev":"mate","kind":"def","fen":proj::project(b),"pos":proj::project_struct(b),"answers":ans})).ok();
            }
        }
    };
    if !fens.is_empty() {
        for l in std::fs::read_to_string(&fens).unwrap().lines() {
            if let Ok(b) = proj::build(l.trim()) {
                emit(&b, &mut w, &mut n1, &mut nd, true);
            }
        }
        w.flush().ok();
        return 0;
    }
    // LOST positions: the side to move has a bare-ish king against heavy material, so that many or all of
    // its moves run into a forced mate the quiescence search can see - the situation in which every root
    // move scores "lost" and the tie is broken by move order.  Candidates only: TLC recomputes everything.
    let won: usize = arg(args, "--won", "0").parse().unwrap();
    let lost: usize = arg(args, "--lost", "0").parse::<usize>().unwrap() + won;
    let mut made = 0usize;
    let mut guard = 0usize;
    while made < lost && guard < lost * 400 {
        guard += 1;
        let mut cs = vec![0i32; 64];
        let mut free: Vec<usize> = (0..64).collect();
        let mut take = |rng: &mut rand::rngs::StdRng| {
            let i = rng.gen_range(0..free.len());
            free.swap_remove(i)
        };
        let weak_black = rng.gen_bool(0.5);
        let (wk, sk) = (take(&mut rng), take(&mut rng));
        cs[wk] = if weak_black { 12 } else { 6 };
        cs[sk] = if weak_black { 6 } else { 12 };
        let heavy = rng.gen_range(2..=4);
        for _ in 0..heavy {
            let sq = take(&mut rng);
            let kind = [5, 5, 4, 4, 3, 2][rng.gen_range(0..6)];
            cs[sq] = kind + if weak_black { 0 } else { 6 };
        }
        for _ in 0..rng.gen_range(0..=2) {
            let sq = take(&mut rng);
            let kind = [1, 2, 3, 4][rng.gen_range(0..4)];
            if kind == 1 && (sq / 8 == 0 || sq / 8 == 7) {
                continue;
            }
            cs[sq] = kind + if weak_black { 6 } else { 0 };
        }
        if won > 0 {
            // the strong side is to move and the weak king stands on the edge: mates in one by every kind of
            // man, including pawns that arrive on their seventh rank (one or two strong pawns are added there)
            let edge: Vec<usize> = (0..64).filter(|q| q / 8 == 0 || q / 8 == 7 || q % 8 == 0 || q % 8 == 7).collect();
            let e = edge[rng.gen_range(0..edge.len())];
            if cs[e] == 0 {
                cs[wk] = 0;
                cs[e] = if weak_black { 12 } else { 6 };
            }
            for _ in 0..rng.gen_range(0..=2) {
                let f = rng.gen_range(0..8);
                let r = if weak_black { [5usize, 6][rng.gen_range(0..2)] } else { [2usize, 1][rng.gen_range(0..2)] };
                if cs[r * 8 + f] == 0 {
                    cs[r * 8 + f] = if weak_black { 1 } else { 7 };
                }
            }
            if rng.gen_bool(0.4) {
                // template: the weak king on its back rank, a strong pawn two ranks in front on a neighbouring file
                // (its push gives check from the seventh rank), a second strong pawn or the strong king nearby
                for s in 0..64 {
                    if cs[s] == 6 || cs[s] == 12 || cs[s] == 1 || cs[s] == 7 {
                        cs[s] = 0;
                    }
                }
                let kf = rng.gen_range(0..8i32);
                let (back, pr, dir) = if weak_black { (7i32, 5i32, -1i32) } else { (0i32, 2i32, 1i32) };
                cs[(back * 8 + kf) as usize] = if weak_black { 12 } else { 6 };
                let pf = if kf == 0 { 1 } else if kf == 7 { 6 } else { kf + [-1, 1][rng.gen_range(0..2)] };
                cs[(pr * 8 + pf) as usize] = if weak_black { 1 } else { 7 };
                let g = (kf + [-2, -1, 0, 1, 2][rng.gen_range(0..5)]).clamp(0, 7);
                let gs = (pr * 8 + g) as usize;
                if cs[gs] == 0 {
                    cs[gs] = if rng.gen_bool(0.5) { if weak_black { 1 } else { 7 } } else { if weak_black { 6 } else { 12 } };
                }
                if !cs.iter().any(|&c| c == if weak_black { 6 } else { 12 }) {
                    let ks = ((pr + dir) * 8 + (kf + [-1, 0, 1][rng.gen_range(0..3)]).clamp(0, 7)) as usize;
                    if cs[ks] == 0 {
                        cs[ks] = if weak_black { 6 } else { 12 };
                    }
                }
            }
        }
        let strong_to_move = won > 0;
        let wk = cs.iter().position(|&c| c == if weak_black { 12 } else { 6 }).unwrap();
        let b = proj::build_from(&cs, if strong_to_move { weak_black } else { !weak_black }, "", None);
        let flipped = proj::build_from(&cs, if strong_to_move { !weak_black } else { weak_black }, "", None);
        let ok = proj::playable_board(&b) && { let _ = &flipped; true };
        let adjacent = {
            let (f1, r1, f2, r2) = ((wk % 8) as i32, (wk / 8) as i32, (sk % 8) as i32, (sk / 8) as i32);
            (f1 - f2).abs() <= 1 && (r1 - r2).abs() <= 1
        };
        if !ok || adjacent {
            continue;
        }
        let before = nd;
        if won > 0 {
            let before1 = n1;
            let mut big = usize::MAX / 2;
            emit(&b, &mut w, &mut n1, &mut big, false);
            if n1 > before1 {
                made += 1;
            }
            continue;
        }
        let mut dummy = usize::MAX / 2;
        emit(&b, &mut w, &mut dummy, &mut nd, false);
        if nd > before {
            made += 1;
        }
    }
    if lost > 0 {
        w.flush().ok();
        return 0;
    }
    // SPECIAL-MOVE mates: the mate in one (or the mating reply to be avoided) is delivered by castling, by an en-passant
    // capture, by a promotion (under-promotions included) or by a discovered / double check.  Templates raise the odds, the
    // engine's generator only proposes, TLC recomputes MateInOne / AllowsMateInOne from ChessRules.
    let special: usize = arg(args, "--special", "0").parse().unwrap();
    if special > 0 {
        let mirror = |cs: &[i32]| -> Vec<i32> {
            let mut o = vec![0i32; 64];
            for s in 0..64 {
                if cs[s] != 0 {
                    o[s ^ 56] = if cs[s] <= 6 { cs[s] + 6 } else { cs[s] - 6 };
                }
            }
            o
        };
        let mut made = [0usize; 8];
        let mut guard = 0usize;
        while made.iter().sum::<usize>() < special * 8 && guard < special * 400000 {
            guard += 1;
            let tpl = guard % 4;
            if made[tpl * 2] >= special && made[tpl * 2 + 1] >= special {
                continue;
            }
            let mut cs = vec![0i32; 64];
            let mut cr = String::new();
            let mut ep: Option<u8> = None;
            let mut keep_empty: Vec<usize> = vec![];
            let mut from_sq: Option<usize> = None;
            let place = |cs: &mut Vec<i32>, c: i32, lo: usize, hi: usize, keep: &Vec<usize>, rng: &mut rand::rngs::StdRng| -> Option<usize> {
                for _ in 0..60 {
                    let q = rng.gen_range(lo..hi);
                    if cs[q] == 0 && !keep.contains(&q) && !((c == 1 || c == 7) && (q < 8 || q >= 56)) {
                        cs[q] = c;
                        return Some(q);
                    }
                }
                None
            };
            match tpl {
                0 => {
                    cs[4] = 6;
                    if rng.gen_bool(0.5) {
                        cs[7] = 4;
                        cr.push('K');
                        keep_empty.extend([5, 6]);
                    } else {
                        cs[0] = 4;
                        cr.push('Q');
                        keep_empty.extend([1, 2, 3]);
                    }
                    place(&mut cs, 12, 0, 24, &keep_empty, &mut rng);
                }
                1 => {
                    let f = rng.gen_range(0..8usize);
                    let g = if f == 0 { 1 } else if f == 7 { 6 } else if rng.gen_bool(0.5) { f + 1 } else { f - 1 };
                    cs[32 + f] = 7;
                    cs[32 + g] = 1;
                    ep = Some((40 + f) as u8);
                    keep_empty.extend([40 + f, 48 + f]);
                    place(&mut cs, 12, 32, 64, &keep_empty, &mut rng);
                    place(&mut cs, 6, 0, 64, &keep_empty, &mut rng);
                }
                2 => {
                    let f = rng.gen_range(0..8usize);
                    cs[48 + f] = 1;
                    if rng.gen_bool(0.5) {
                        keep_empty.push(56 + f);
                    }
                    place(&mut cs, 12, 40, 64, &keep_empty, &mut rng);
                    place(&mut cs, 6, 0, 64, &keep_empty, &mut rng);
                    if rng.gen_bool(0.5) {
                        let c = [8, 9, 10][rng.gen_range(0..3)];
                        let t = if f == 0 { 57 } else if f == 7 { 62 } else { 56 + f + 1 - 2 * rng.gen_range(0..2usize) };
                        if cs[t] == 0 {
                            cs[t] = c;
                        }
                    }
                }
                _ => {
                    // weak king, a strong man X, a strong slider S behind X on one line through the king
                    let k = rng.gen_range(0..64usize);
                    let dirs: [(i32, i32); 8] = [(1, 0), (-1, 0), (0, 1), (0, -1), (1, 1), (1, -1), (-1, 1), (-1, -1)];
                    let (df, dr) = dirs[rng.gen_range(0..8)];
                    let (t1, t2) = (rng.gen_range(1..4i32), rng.gen_range(1..4i32));
                    let (kf, kr) = ((k % 8) as i32, (k / 8) as i32);
                    let (xf, xr) = (kf + df * t1, kr + dr * t1);
                    let (sf, sr) = (kf + df * (t1 + t2), kr + dr * (t1 + t2));
                    if !(0..8).contains(&sf) || !(0..8).contains(&sr) {
                        continue;
                    }
                    cs[k] = 12;
                    let x = (xr * 8 + xf) as usize;
                    let sl = (sr * 8 + sf) as usize;
                    let xc = [2, 2, 3, 4, 1][rng.gen_range(0..5)];
                    if xc == 1 && (x < 8 || x >= 48) {
                        continue;
                    }
                    cs[x] = xc;
                    cs[sl] = if df == 0 || dr == 0 { [4, 5][rng.gen_range(0..2)] } else { [3, 5][rng.gen_range(0..2)] };
                    for t in 1..(t1 + t2) {
                        if t != t1 {
                            keep_empty.push(((kr + dr * t) * 8 + kf + df * t) as usize);
                        }
                    }
                    from_sq = Some(x);
                    place(&mut cs, 6, 0, 64, &keep_empty, &mut rng);
                }
            }
            if !cs.iter().any(|&c| c == 6) || !cs.iter().any(|&c| c == 12) {
                continue;
            }
            for _ in 0..rng.gen_range(1..=4) {
                let c = [5, 4, 4, 3, 2, 1, 1][rng.gen_range(0..7)];
                place(&mut cs, c, 0, 64, &keep_empty, &mut rng);
            }
            let flip = rng.gen_bool(0.5);
            // P: the strong side to move, the special move mates
            if made[tpl * 2] < special && proj::playable(&cs, true) {
                let b = proj::build_from(&cs, true, &cr, ep);
                if let Ok(moves) = catch_unwind(AssertUnwindSafe(|| mg.generate_moves(&b))) {
                    let hit = moves.iter().any(|m| {
                        let sp = match tpl {
                            0 => m.move_type == MoveType::Castle,
                            1 => m.move_type == MoveType::EnPassant,
                            2 => m.move_type == MoveType::Promotion,
                            _ => Some(m.from as usize) == from_sq,
                        };
                        sp && is_mated(&mg, &b.clone_with_move(m))
                    });
                    if hit {
                        let bb = if flip {
                            proj::build_from(&mirror(&cs), false, &cr.to_lowercase(), ep.map(|e| e ^ 56))
                        } else {
                            b
                        };
                        let before = n1;
                        let mut big = usize::MAX / 2;
                        emit(&bb, &mut w, &mut n1, &mut big, true);
                        if n1 > before {
                            made[tpl * 2] += 1;
                        }
                    }
                }
            }
            // P': the weak side to move (one more weak man so that it has a choice); some replies allow the special mate
            if tpl != 1 && made[tpl * 2 + 1] < special {
                let mut c2 = cs.clone();
                let wc = [10, 8, 9, 7][rng.gen_range(0..4)];
                place(&mut c2, wc, 0, 64, &keep_empty, &mut rng);
                if proj::playable(&c2, false) {
                    let b = proj::build_from(&c2, false, &cr, None);
                    let special_reply = |b: &Board| -> bool {
                        let ms = match catch_unwind(AssertUnwindSafe(|| mg.generate_moves(b))) {
                            Ok(m) => m,
                            Err(_) => return false,
                        };
                        ms.iter().any(|m| {
                            let c = b.clone_with_move(m);
                            mg.generate_moves(&c).iter().any(|r| {
                                let sp = match tpl {
                                    0 => r.move_type == MoveType::Castle,
                                    2 => r.move_type == MoveType::Promotion,
                                    _ => Some(r.from as usize) == from_sq,
                                };
                                sp && is_mated(&mg, &c.clone_with_move(r))
                            })
                        })
                    };
                    if special_reply(&b) {
                        let bb = if flip { proj::build_from(&mirror(&c2), true, &cr.to_lowercase(), None) } else { b };
                        let before = nd;
                        let mut dummy = usize::MAX / 2;
                        emit(&bb, &mut w, &mut dummy, &mut nd, false);
                        if nd > before {
                            made[tpl * 2 + 1] += 1;
                        }
                    }
                }
            }
        }
        w.flush().ok();
        return 0;
    }
    let mut games = 0;
    while (n1 < want_m1 || nd < want_def) && games < 20000 {
        games += 1;
        let mut b = Board::default();
        for _ in 0..200 {
            let moves = mg.generate_moves(&b);
            if moves.is_empty() {
                break;
            }
            if rng.gen_bool(0.25) {
                emit(&b, &mut w, &mut n1, &mut nd, false);
            }
            let caps: Vec<&Move> = moves.iter().filter(|m| m.move_type == MoveType::Capture).collect();
            let m = if !caps.is_empty() && rng.gen_bool(0.35) { *caps[rng.gen_range(0..caps.len())] } else { moves[rng.gen_range(0..moves.len())] };
            b.make_move(&m);
        }
    }
    w.flush().ok();
    0
}


// ---------------------------------------------------------------------------------------------
// C05 on ARBITRARY positions: the alpha-beta contract at the root.  For a position, a depth and a root
// window (a, b) a fresh engine's negamax answers r; with v the answer for the full window:
//   a < v < b  =>  r = v ;   v <= a  =>  r <= a ;   v >= b  =>  r >= b
// ("cut-offs are optimisations only": no window may change the value).  Needs no game graph, so
// positions with an unbounded quiescence tree are in scope.
// ---------------------------------------------------------------------------------------------
pub fn window(args: &[String]) -> i32 {
    let seed: u64 = arg(args, "--seed", "1").parse().unwrap();
    let want: usize = arg(args, "--positions", "20").parse().unwrap();
    let maxdepth: u8 = arg(args, "--maxdepth", "3").parse().unwrap();
    let fens = arg(args, "--fens", "");
    let out_path = arg(args, "--out", "");
    let mg = MoveGenerator::new();
    let mut rng = rand::rngs::StdRng::seed_from_u64(seed);
    let mut w = std::io::BufWriter::new(std::fs::File::create(&out_path).unwrap());
    let mut boards: Vec<Board> = vec![];
    if !fens.is_empty() {
        for l in std::fs::read_to_string(&fens).unwrap().lines() {
            if let Ok(b) = proj::build(l.trim()) {
                boards.push(b);
            }
        }
    }
    // positions of every phase from random games (captures preferred now and then)
    while boards.len() < want {
        let mut b = Board::default();
        let stop_at = rng.gen_range(4..160);
        for ply in 0..stop_at {
            let moves = mg.generate_moves(&b);
            if moves.is_empty() {
                break;
            }
            if ply + 1 == stop_at {
                boards.push(b);
            }
            let caps: Vec<&Move> = moves.iter().filter(|m| m.move_type != MoveType::Quiet).collect();
            let m = if !caps.is_empty() && rng.gen_bool(0.4) { *caps[rng.gen_range(0..caps.len())] } else { moves[rng.gen_range(0..moves.len())] };
            b.make_move(&m);
        }
    }
    let inf = 32767i32;
    let mut excluded_deeper = 0u64;
    let mut s = Searcher::new();
    for b in boards.iter().take(want.max(boards.len().min(want))) {
        if mg.generate_moves(b).is_empty() {
            continue;
        }
        for d in 1..=maxdepth {
            // The property compares with the depth-limited minimax value only for searches in which no table entry
            // searched DEEPER than a node requires was reused (from depth 4 on the same position can be reached with
            // different remaining depths inside one search).  Such runs are excluded, as C05 prescribes.
            let full = catch_unwind(AssertUnwindSafe(|| {
                s.verif_reset();
                crate::search::verif::reset_counters();
                let v = s.verif_search_window(b, d, -inf, inf);
                (v, crate::search::verif::counters().1)
            }));
            let v = match full {
                Ok((_, deeper)) if deeper > 0 => {
                    excluded_deeper += 1;
                    continue;
                }
                Ok((v, _)) => v,
                Err(_) => {
                    writeln!(w, "{}", json!({"ev":"window","fen":proj::project(b),"pos":proj::project_struct(b),"d":d,"panic":true})).ok();
                    s = Searcher::new();
                    continue;
                }
            };
            if v.abs() >= 30000 {
                continue;
            }
            let mut wins: Vec<(i32, i32)> = vec![(v - 1, v + 1), (v - 50, v + 50), (v - 1, inf), (-inf, v + 1), (v, v + 1), (v - 1, v),
                                               (v + 10, v + 11), (v - 11, v - 10), (v - 300, v + 1), (v - 1, v + 300)];
            for _ in 0..4 {
                let a = v + rng.gen_range(-400..400);
                wins.push((a, a + rng.gen_range(1..400)));
            }
            let mut probes = vec![];
            for (a, bb) in wins {
                let (a, bb) = (a.max(-inf), bb.min(inf));
                if a >= bb {
                    continue;
                }
                match catch_unwind(AssertUnwindSafe(|| {
                    s.verif_reset();
                    crate::search::verif::reset_counters();
                    let r = s.verif_search_window(b, d, a, bb);
                    (r, crate::search::verif::counters().1)
                })) {
                    Ok((_, deeper)) if deeper > 0 => excluded_deeper += 1,
                    Ok((r, _)) => probes.push(json!([a, bb, clamp(r)])),
                    Err(_) => {
                        probes.push(json!([a, bb, 99999999]));
                        s = Searcher::new();
                    }
                }
            }
            writeln!(w, "{}", json!({"ev":"window","fen":proj::project(b),"pos":proj::project_struct(b),"d":d,"v":v,"probes":probes,
                                     "excluded_deeper_entry_reused":excluded_deeper})).ok();
        }
    }
    w.flush().ok();
    0
}

// ---------------------------------------------------------------------------------------------
// C05 on ARBITRARY positions, second oracle: the minimax recursion itself.  For a fresh engine and full
// windows, V(p, d) = max over the legal moves m of -V(p.m, d-1), with V(., 0) the engine's own quiescence
// value - by induction on d this IS "the reported score equals the minimax value of the depth-limited tree
// whose leaves are scored by the engine's own quiescence evaluation".  Every V is a separate completed
// search of a fresh engine, so a search that drops, reorders-and-loses or mis-scores a move at the root
// disagrees with its own children.  No game graph is needed (positions with an unbounded quiescence tree
// are in scope); the move list is validated by TLC against ChessRules (BellmanTrace.tla).
// ---------------------------------------------------------------------------------------------
pub fn bellman(args: &[String]) -> i32 {
    let seed: u64 = arg(args, "--seed", "1").parse().unwrap();
    let want: usize = arg(args, "--positions", "20").parse().unwrap();
    let kpk: usize = arg(args, "--kpk", "0").parse().unwrap();
    let maxdepth: u8 = arg(args, "--maxdepth", "2").parse().unwrap();
    let fens = arg(args, "--fens", "");
    let out_path = arg(args, "--out", "");
    let mg = MoveGenerator::new();
    let mut rng = rand::rngs::StdRng::seed_from_u64(seed);
    let mut w = std::io::BufWriter::new(std::fs::File::create(&out_path).unwrap());
    let mut boards: Vec<Board> = vec![];
    if !fens.is_empty() {
        for l in std::fs::read_to_string(&fens).unwrap().lines() {
            if let Ok(b) = proj::build(l.trim()) {
                boards.push(b);
            }
        }
    } else {
        // king + pawn on the seventh rank (+ sometimes one more man) against king, the pawn's side to move
        let mut guard = 0;
        while boards.len() < kpk && guard < kpk * 50 {
            guard += 1;
            let mut cs = vec![0i32; 64];
            let black = rng.gen_bool(0.5);
            let f = rng.gen_range(0..8usize);
            cs[if black { 8 + f } else { 48 + f }] = if black { 7 } else { 1 };
            let mut free: Vec<usize> = (0..64).filter(|&q| cs[q] == 0).collect();
            let mut take = |rng: &mut rand::rngs::StdRng| {
                let i = rng.gen_range(0..free.len());
                free.swap_remove(i)
            };
            let (a, b2) = (take(&mut rng), take(&mut rng));
            cs[a] = 6;
            cs[b2] = 12;
            if rng.gen_bool(0.3) {
                let q = take(&mut rng);
                let k = [2, 3, 4, 5, 8, 9, 10, 11][rng.gen_range(0..8)];
                cs[q] = k;
            }
            if proj::playable(&cs, !black) {
                boards.push(proj::build_from(&cs, !black, "", None));
            }
        }
        // positions of every phase from random games
        let target = boards.len() + want;
        while boards.len() < target {
            let mut b = Board::default();
            let stop_at = rng.gen_range(4..160);
            for ply in 0..stop_at {
                let moves = mg.generate_moves(&b);
                if moves.is_empty() {
                    break;
                }
                if ply + 1 == stop_at {
                    boards.push(b);
                }
                let caps: Vec<&Move> = moves.iter().filter(|m| m.move_type != MoveType::Quiet).collect();
                let m = if !caps.is_empty() && rng.gen_bool(0.4) { *caps[rng.gen_range(0..caps.len())] } else { moves[rng.gen_range(0..moves.len())] };
                b.make_move(&m);
            }
        }
    }
    // the game clock is not part of the position the property talks about: every third position carries a
    // halfmove clock of 99 (a search that values "fifty moves without progress" differently at
    // the root and inside the tree no longer satisfies the recursion)
    if fens.is_empty() {
        for (i, b) in boards.iter_mut().enumerate() {
            if i % 3 == 2 {
                b.halfmove_clock = 99 as _;
                b.fullmove_counter = 120 as _;
            }
        }
    }
    let inf = 32767i32;
    let mut s = Searcher::new();
    // one completed full-window search of a fresh engine at exactly depth d: (value, move, deeper-entry hits)
    let mut value = |s: &mut Searcher, b: &Board, d: u8| -> Option<(i32, Option<Move>, u64)> {
        catch_unwind(AssertUnwindSafe(|| {
            s.verif_reset();
            crate::search::verif::reset_counters();
            if d == 0 {
                let v = s.verif_search_window(b, 0, -inf, inf);
                (v, None, 0)
            } else {
                let (v, m) = s.verif_search_fixed(b, d);
                (v, m, crate::search::verif::counters().1)
            }
        }))
        .ok()
    };
    let mut excluded = 0u64;
    for b in boards.iter() {
        if !proj::playable_board(b) {
            continue;
        }
        let moves = match catch_unwind(AssertUnwindSafe(|| mg.generate_moves(b))) {
            Ok(m) => m,
            Err(_) => continue,
        };
        if moves.is_empty() {
            continue;
        }
        for d in 1..=maxdepth {
            let (v, mv, deeper) = match value(&mut s, b, d) {
                Some(x) => x,
                None => {
                    writeln!(w, "{}", json!({"ev":"bellman","fen":proj::project6(b),"pos":proj::project_struct(b),"d":d,"panic":true})).ok();
                    s = Searcher::new();
                    continue;
                }
            };
            if deeper > 0 {
                excluded += 1;
                continue;
            }
            let mut kids = vec![];
            let mut bad = false;
            for m in &moves {
                let c = b.clone_with_move(m);
                match value(&mut s, &c, d - 1) {
                    Some((cv, _, cd)) => {
                        if cd > 0 {
                            bad = true;
                            break;
                        }
                        kids.push(json!([proj::move_text(m), clamp(cv)]));
                    }
                    None => {
                        kids.push(json!([proj::move_text(m), 99999999]));
                        s = Searcher::new();
                    }
                }
            }
            if bad {
                excluded += 1;
                continue;
            }
            // the same root through the PUBLIC entry point (iterative deepening 1..d on a fresh engine): what a user's
            // `go depth d` computes.  Judged only when its last iteration reused no entry searched deeper than required.
            let publ = catch_unwind(AssertUnwindSafe(|| {
                s.verif_reset();
                crate::search::verif::reset_counters();
                let (pv, pm) = s.find_best_move(b, d, None);
                (pv, pm, crate::search::verif::counters().1)
            }));
            let mut ev = json!({"ev":"bellman","fen":proj::project6(b),"pos":proj::project_struct(b),"d":d,"v":clamp(v),
                                     "move":mv.map(|m| proj::move_text(&m)).unwrap_or_else(|| "-".into()),"kids":kids,
                                     "excluded_deeper_entry_reused":excluded});
            match publ {
                Ok((pv, pm, 0)) => {
                    ev["pub"] = json!([clamp(pv), pm.map(|m| proj::move_text(&m)).unwrap_or_else(|| "-".into())]);
                }
                Ok(_) => {}
                Err(_) => {
                    ev["pub"] = json!([99999999, "panic"]);
                    s = Searcher::new();
                }
            }
            writeln!(w, "{}", ev).ok();
        }
    }
    w.flush().ok();
    0
}

// ---------------------------------------------------------------------------------------------
// C06 on ARBITRARY positions: a search interrupted at the j-th poll, then a completed fixed-depth search of
// the same position on the same Searcher, must report what a fresh engine reports (which is the minimax
// value by the recursion check above), and the game-history stack must be as before.  Depth <= 3, and runs
// in which the completed search reused an entry searched deeper than a node requires are excluded (C05's
// and C06's reference value is the depth-limited one).
// ---------------------------------------------------------------------------------------------
pub fn aborteq(args: &[String]) -> i32 {
    let seed: u64 = arg(args, "--seed", "1").parse().unwrap();
    let want: usize = arg(args, "--positions", "10").parse().unwrap();
    let depth: u8 = arg(args, "--depth", "3").parse().unwrap();
    let samples: u64 = arg(args, "--samples", "40").parse().unwrap();
    let fens = arg(args, "--fens", "");
    let out_path = arg(args, "--out", "");
    let mg = MoveGenerator::new();
    let mut rng = rand::rngs::StdRng::seed_from_u64(seed);
    let mut w = std::io::BufWriter::new(std::fs::File::create(&out_path).unwrap());
    let mut boards: Vec<Board> = vec![];
    if !fens.is_empty() {
        for l in std::fs::read_to_string(&fens).unwrap().lines() {
            if let Ok(b) = proj::build(l.trim()) {
                boards.push(b);
            }
        }
    }
    while boards.len() < want {
        let mut b = Board::default();
        let stop_at = rng.gen_range(4..140);
        for ply in 0..stop_at {
            let moves = mg.generate_moves(&b);
            if moves.is_empty() {
                break;
            }
            if ply + 1 == stop_at {
                boards.push(b);
            }
            let caps: Vec<&Move> = moves.iter().filter(|m| m.move_type != MoveType::Quiet).collect();
            let m = if !caps.is_empty() && rng.gen_bool(0.4) { *caps[rng.gen_range(0..caps.len())] } else { moves[rng.gen_range(0..moves.len())] };
            b.make_move(&m);
        }
    }
    let with_hist = arg(args, "--hist", "0") == "1";
    // a game history in which every position of a four-move round trip from b has occurred twice (as the position command
    // records it: the position before each move), so that the first move of the round trip is a third occurrence
    let cycle_history = |b: &Board, rng: &mut rand::rngs::StdRng| -> Vec<Board> {
        let quiet = |x: &Board| -> Vec<Move> {
            mg.generate_moves(x).into_iter().filter(|m| m.move_type == MoveType::Quiet && m.piece_type != crate::pieces::Piece::Pawn).collect()
        };
        for _ in 0..12 {
            let q1 = quiet(b);
            if q1.is_empty() {
                return vec![];
            }
            let m1 = q1[rng.gen_range(0..q1.len())];
            let p1 = b.clone_with_move(&m1);
            let q2 = quiet(&p1);
            if q2.is_empty() {
                continue;
            }
            let m2 = q2[rng.gen_range(0..q2.len())];
            let p2 = p1.clone_with_move(&m2);
            let back1 = quiet(&p2).into_iter().find(|m| m.from == m1.to && m.to == m1.from);
            if let Some(b1) = back1 {
                let p3 = p2.clone_with_move(&b1);
                if let Some(b2) = quiet(&p3).into_iter().find(|m| m.from == m2.to && m.to == m2.from) {
                    if proj::project(&p3.clone_with_move(&b2)) == proj::project(b) {
                        return vec![*b, p1, p2, p3, *b, p1, p2, p3];
                    }
                }
            }
        }
        vec![]
    };
    let mut s = Searcher::new();
    for b in boards.iter() {
        if !proj::playable_board(b) || mg.generate_moves(b).is_empty() {
            continue;
        }
        let hist: Vec<Board> = if with_hist { cycle_history(b, &mut rng) } else { vec![] };
        let succ: Vec<Board> = mg.generate_moves(b).iter().map(|m| b.clone_with_move(m)).collect();
        for d in 2..=depth {
            // reference: a fresh engine, one fixed-depth search; and the number of polls of a complete iterative search
            let r = catch_unwind(AssertUnwindSafe(|| {
                s.verif_reset();
                for h in &hist {
                    s.push_position(h);
                }
                crate::timer::verif::set_poll_limit(None);
                let (v, _) = s.verif_search_fixed(b, d);
                s.verif_reset();
                for h in &hist {
                    s.push_position(h);
                }
                let _ = s.find_best_move(b, d, None);
                (v, crate::timer::verif::poll_stats().0)
            }));
            let (fresh, polls) = match r {
                Ok(x) => x,
                Err(_) => {
                    s = Searcher::new();
                    continue;
                }
            };
            if polls > 400_000 {
                continue;
            }
            let mut runs = vec![];
            let mut excluded = 0u64;
            for i in 0..samples {
                let j = if i == 0 { 1 } else { rng.gen_range(1..=polls.max(1)) };
                let r = catch_unwind(AssertUnwindSafe(|| {
                    s.verif_reset();
                    for h in &hist {
                        s.push_position(h);
                    }
                    // what the engine answers about the game history BEFORE the interrupted search (one answer per successor) ...
                    let before: Vec<bool> = succ.iter().map(|c| s.verif_is_repetition_draw(b, c)).collect();
                    crate::timer::verif::set_poll_limit(Some(j));
                    let _ = s.find_best_move(b, d, None);
                    crate::timer::verif::set_poll_limit(None);
                    let rep = s.verif_repetition_len();
                    // ... and AFTER it
                    let after: Vec<bool> = succ.iter().map(|c| s.verif_is_repetition_draw(b, c)).collect();
                    crate::search::verif::reset_counters();
                    let (v2, _) = s.verif_search_fixed(b, d);
                    (v2, rep, crate::search::verif::counters().1, before, after)
                }));
                crate::timer::verif::set_poll_limit(None);
                match r {
                    Ok((_, _, deeper, _, _)) if deeper > 0 => excluded += 1,
                    Ok((v2, rep, _, before, after)) => runs.push(json!([j, clamp(v2), rep, before, after])),
                    Err(_) => {
                        runs.push(json!([j, 99999999, 0, [], []]));
                        s = Searcher::new();
                    }
                }
            }
            writeln!(w, "{}", json!({"ev":"aborteq","fen":proj::project(b),"pos":proj::project_struct(b),"d":d,"fresh":clamp(fresh),"hist":hist.len(),
                                     "polls":polls,"runs":runs,"excluded_deeper_entry_reused":excluded})).ok();
        }
    }
    w.flush().ok();
    0
}

/// C17, observed on the REAL search: every quiescence node a search enters is recorded by the event sink together
/// with the move list the node is about to examine.  One `reset` + one `qnode` event per distinct node; TLC
/// (ChessTrace.tla) requires the list to be the tactical moves of the position, or every legal move when the side to
/// move is in check.  Nodes in check and nodes with promotions are always kept, the others are sampled.
pub fn qnodes(args: &[String]) -> i32 {
    let seed: u64 = arg(args, "--seed", "1").parse().unwrap();
    let want: usize = arg(args, "--positions", "20").parse().unwrap();
    let fam: usize = arg(args, "--kpk", "20").parse().unwrap();
    let maxdepth: u8 = arg(args, "--maxdepth", "2").parse().unwrap();
    let cap: usize = arg(args, "--max-nodes", "400").parse().unwrap();
    let fens = arg(args, "--fens", "");
    let out_path = arg(args, "--out", "");
    let mg = MoveGenerator::new();
    let mut rng = rand::rngs::StdRng::seed_from_u64(seed);
    let mut w = std::io::BufWriter::new(std::fs::File::create(&out_path).unwrap());
    let mut boards: Vec<Board> = vec![];
    if !fens.is_empty() {
        for l in std::fs::read_to_string(&fens).unwrap().lines() {
            if let Ok(b) = proj::build(l.trim()) {
                boards.push(b);
            }
        }
    }
    // kings + one or two pawns on the seventh rank (+ sometimes one more man), either side to move: promotions
    // (also capture-promotions) with the kings anywhere - in particular on the pawn's file or diagonal
    let mut guard = 0;
    let target = boards.len() + fam;
    while boards.len() < target && guard < fam * 50 {
        guard += 1;
        let mut cs = vec![0i32; 64];
        let black = rng.gen_bool(0.5);
        let f = rng.gen_range(0..8usize);
        cs[if black { 8 + f } else { 48 + f }] = if black { 7 } else { 1 };
        if rng.gen_bool(0.3) {
            let f2 = rng.gen_range(0..8usize);
            let q = if black { 8 + f2 } else { 48 + f2 };
            if cs[q] == 0 {
                cs[q] = if black { 7 } else { 1 };
            }
        }
        let mut free: Vec<usize> = (0..64).filter(|&q| cs[q] == 0).collect();
        let mut take = |rng: &mut rand::rngs::StdRng| {
            let i = rng.gen_range(0..free.len());
            free.swap_remove(i)
        };
        let (a, b2) = (take(&mut rng), take(&mut rng));
        cs[a] = 6;
        cs[b2] = 12;
        for _ in 0..rng.gen_range(0..3) {
            let q = take(&mut rng);
            cs[q] = [2, 3, 4, 5, 8, 9, 10, 11][rng.gen_range(0..8)];
        }
        let wtm = rng.gen_bool(0.5);
        if proj::playable(&cs, wtm) {
            boards.push(proj::build_from(&cs, wtm, "", None));
        }
    }
    // positions of every phase from random games
    let target = boards.len() + want;
    while boards.len() < target {
        let mut b = Board::default();
        let stop_at = rng.gen_range(4..200);
        for ply in 0..stop_at {
            let moves = mg.generate_moves(&b);
            if moves.is_empty() {
                break;
            }
            if ply + 1 == stop_at {
                boards.push(b);
            }
            let caps: Vec<&Move> = moves.iter().filter(|m| m.move_type != MoveType::Quiet).collect();
            let m = if !caps.is_empty() && rng.gen_bool(0.4) { *caps[rng.gen_range(0..caps.len())] } else { moves[rng.gen_range(0..moves.len())] };
            b.make_move(&m);
        }
    }
    let mut seen: std::collections::HashSet<String> = std::collections::HashSet::new();
    let (mut kept, mut plain_kept, mut total, mut searches) = (0usize, 0usize, 0u64, 0u64);
    let per_board = (cap / boards.len().max(1)).max(6);
    for b in boards.iter() {
        if !proj::playable_board(b) {
            continue;
        }
        let mut here = 0usize;
        for d in 1..=maxdepth {
            crate::search::verif::set_sink(true);
            let _ = catch_unwind(AssertUnwindSafe(|| {
                let mut s = Searcher::new();
                s.find_best_move(b, d, None)
            }));
            let evs = crate::search::verif::set_sink(false);
            searches += 1;
            for (_, e) in evs {
                if let crate::search::verif::Ev::Quiet { board, moves, .. } = e {
                    total += 1;
                    let key = proj::project(&board);
                    if seen.contains(&key) {
                        continue;
                    }
                    let texts: Vec<String> = moves.iter().map(proj::move_text).collect();
                    let promo = moves.iter().any(|m| m.move_type == MoveType::Promotion);
                    // (the engine's own check test is used for SAMPLING only: which nodes to keep)
                    let chk = catch_unwind(AssertUnwindSafe(|| mg.is_in_check(&board))).unwrap_or(true);
                    let interesting = promo || chk;
                    if kept >= cap || here >= 3 * per_board || (!interesting && (here >= per_board || plain_kept * 2 > cap || !rng.gen_bool(0.25))) {
                        continue;
                    }
                    seen.insert(key.clone());
                    kept += 1;
                    here += 1;
                    if !interesting {
                        plain_kept += 1;
                    }
                    writeln!(w, "{}", json!({"ev":"reset","pos":proj::project_struct(&board)})).ok();
                    writeln!(w, "{}", json!({"ev":"qnode","fen":key,"moves":texts,"root":proj::project6(b),"d":d})).ok();
                }
            }
        }
    }
    w.flush().ok();
    println!("{}", json!({"summary":true,"searches":searches,"quiescence_nodes_entered":total,"nodes_recorded":kept}));
    0
}
