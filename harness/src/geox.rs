//! C10: dump the engine's attack / line tables for GeoTrace.tla.
//! The enumeration (ray list and subset numbering per piece and square) is read from the records
//! printed by the specification in emit mode; this file only asks the engine and encodes answers.

use crate::lookup::LookupTable;
use crate::pieces::Piece;
use rand::{Rng, SeedableRng};
use serde_json::{json, Value};
use std::io::{BufRead, Write};
use std::panic::{catch_unwind, AssertUnwindSafe};

fn arg(args: &[String], name: &str, default: &str) -> String {
    args.iter().position(|a| a == name).and_then(|i| args.get(i + 1).cloned()).unwrap_or_else(|| default.to_string())
}

fn squares(bb: u64) -> Vec<u8> {
    (0..64u8).filter(|s| bb >> s & 1 == 1).collect()
}

fn piece_of(pc: &str) -> Piece {
    match pc {
        "R" => Piece::Rook,
        "B" => Piece::Bishop,
        _ => Piece::Queen,
    }
}

/// answer as a bit mask over the ray squares + number of answer bits off the rays
fn encode(ans: u64, rays: &[u8]) -> (i64, u32) {
    let mut m: i64 = 0;
    let mut on: u64 = 0;
    for (j, s) in rays.iter().enumerate() {
        on |= 1u64 << s;
        if ans >> s & 1 == 1 {
            m |= 1i64 << j;
        }
    }
    (m, (ans & !on).count_ones())
}

pub fn dump(args: &[String]) -> i32 {
    // --rays <file from the specification>  --full 0|1  --noise N  --seed S  --part i/n
    let rays_file = arg(args, "--rays", "");
    let full = arg(args, "--full", "1") == "1";
    let noise: usize = arg(args, "--noise", "2000").parse().unwrap();
    let seed: u64 = arg(args, "--seed", "1").parse().unwrap();
    let part = arg(args, "--part", "0/1");
    let (pi, pn): (usize, usize) = {
        let v: Vec<usize> = part.split('/').map(|x| x.parse().unwrap()).collect();
        (v[0], v[1])
    };
    let lt = match catch_unwind(LookupTable::init) {
        Ok(t) => t,
        Err(_) => {
            println!("{}", json!({"ev":"panic","where":"LookupTable::init"}));
            return 0;
        }
    };
    let mut rng = rand::rngs::StdRng::seed_from_u64(seed.wrapping_mul(31).wrapping_add(pi as u64));
    let mut w = std::io::BufWriter::new(std::io::stdout());
    let text = std::fs::read_to_string(&rays_file).unwrap();
    let mut idx = 0usize;
    let mut all_rays: Vec<(String, u8, Vec<u8>)> = vec![];
    for line in text.lines() {
        let v: Value = serde_json::from_str(line).unwrap();
        let pc = v["pc"].as_str().unwrap().to_string();
        let sq = v["sq"].as_u64().unwrap() as u8;
        let rays: Vec<u8> = v["rays"].as_array().unwrap().iter().map(|x| x.as_u64().unwrap() as u8).collect();
        all_rays.push((pc, sq, rays));
    }
    for (pc, sq, rays) in &all_rays {
        if pc == "Q" {
            continue;
        }
        idx += 1;
        if idx % pn != pi {
            continue;
        }
        let piece = piece_of(pc);
        let n = rays.len();
        // the engine's pre-mask for this square (pub field of Magic)
        let mask = match piece {
            Piece::Rook => lt.magic_table.rook_attack_masks[*sq as usize],
            _ => lt.magic_table.bishop_attack_masks[*sq as usize],
        };
        // quick mode: every subset of the ray squares that lie inside the engine's mask, with random
        // bits on the remaining (edge) ray squares; full mode: every subset of the rays
        let mut ans: Vec<i64> = Vec::with_capacity(1 << n);
        let mut off_total = 0u32;
        let mut panicked = false;
        if full {
            for i in 0u64..(1u64 << n) {
                let mut occ = 0u64;
                for (j, s) in rays.iter().enumerate() {
                    if i >> j & 1 == 1 {
                        occ |= 1u64 << s;
                    }
                }
                match catch_unwind(AssertUnwindSafe(|| lt.sliding_moves(*sq, occ, piece))) {
                    Ok(a) => {
                        let (m, off) = encode(a, rays);
                        ans.push(m);
                        off_total += off;
                    }
                    Err(_) => {
                        panicked = true;
                        break;
                    }
                }
            }
        }
        if panicked {
            writeln!(w, "{}", json!({"ev":"panic","where":"sliding_moves","pc":pc,"sq":sq})).ok();
            continue;
        }
        if full {
            writeln!(w, "{}", json!({"ev":"slider","pc":pc,"sq":sq,"rays":rays,"mask":squares(mask),"ans":ans,"off":off_total})).ok();
        }
    }
    // sampled full 64-bit occupancies (bits off the rays, edge bits) for R, B and Q
    for k in 0..noise {
        if k % pn != pi {
            continue;
        }
        let (pc, sq, rays) = &all_rays[rng.gen_range(0..all_rays.len())];
        let piece = piece_of(pc);
        let occ: u64 = match k % 4 {
            0 => rng.gen(),
            1 => rng.gen::<u64>() & rng.gen::<u64>(),
            2 => rng.gen::<u64>() | rng.gen::<u64>(),
            _ => rng.gen::<u64>() & rng.gen::<u64>() & rng.gen::<u64>(),
        };
        match catch_unwind(AssertUnwindSafe(|| lt.sliding_moves(*sq, occ, piece))) {
            Ok(a) => {
                let (m, off) = encode(a, rays);
                writeln!(w, "{}", json!({"ev":"noise","pc":pc,"sq":sq,"occ":squares(occ),"ans":m,"off":off})).ok();
            }
            Err(_) => {
                writeln!(w, "{}", json!({"ev":"panic","where":"sliding_moves","pc":pc,"sq":sq})).ok();
            }
        }
    }
    // leaper and pair tables
    for sq in 0..64u8 {
        if (sq as usize) % pn != pi {
            continue;
        }
        writeln!(w, "{}", json!({"ev":"leaper","sq":sq,
            "knight":squares(lt.non_sliding_moves(sq, Piece::Knight)),
            "king":squares(lt.non_sliding_moves(sq, Piece::King))})).ok();
        let seg: Vec<Vec<u8>> = (0..64u8).map(|b| squares(lt.between(sq, b, true))).collect();
        let line: Vec<Vec<u8>> = (0..64u8).map(|b| squares(lt.between(sq, b, false))).collect();
        writeln!(w, "{}", json!({"ev":"pairs","sq":sq,"seg":seg,"line":line})).ok();
    }
    w.flush().ok();
    0
}
