//! Projection of the engine's Board onto the abstract position of ChessRules.tla and back.
//! Trusted (small) code: reads a Board only through its public accessors / public fields and
//! never goes through the engine's FEN parser, move generator or to_algebraic.

use crate::bitboard::Bitboard;
use crate::board::{Board, Castle, Position};
use crate::moves::{Move, MoveType};
use crate::pieces::{Color, Piece};
use serde_json::{json, Value};

pub const PIECES: [Piece; 6] = [
    Piece::Pawn,
    Piece::Knight,
    Piece::Bishop,
    Piece::Rook,
    Piece::Queen,
    Piece::King,
];
const PIECE_CH: &[u8; 12] = b"PNBRQKpnbrqk";

/// piece code of a square: 0 empty, 1..6 white P N B R Q K, 7..12 black, 99 = inconsistent
/// (the square is set in a number of piece boards / colour boards other than 0/0 or 1/1)
pub fn code_at(b: &Board, s: u8) -> i32 {
    let bit: Bitboard = 1u64 << s;
    let mut np = 0;
    let mut code = 0;
    for (i, p) in PIECES.iter().enumerate() {
        if b.bb_piece(*p) & bit != 0 {
            np += 1;
            code = i as i32 + 1;
        }
    }
    let w = b.bb_color(Color::White) & bit != 0;
    let k = b.bb_color(Color::Black) & bit != 0;
    let nc = w as i32 + k as i32;
    if np == 0 && nc == 0 {
        return 0;
    }
    if np == 1 && nc == 1 {
        return if k { code + 6 } else { code };
    }
    99
}

pub fn codes(b: &Board) -> Vec<i32> {
    (0..64u8).map(|s| code_at(b, s)).collect()
}

pub fn rights(b: &Board) -> Vec<&'static str> {
    let (wk, wq) = b.castling_ability(Color::White);
    let (bk, bq) = b.castling_ability(Color::Black);
    let mut cr = vec![];
    if wk {
        cr.push("K");
    }
    if wq {
        cr.push("Q");
    }
    if bk {
        cr.push("k");
    }
    if bq {
        cr.push("q");
    }
    cr
}

pub fn sq_name(s: u8) -> String {
    format!("{}{}", (b'a' + (s % 8)) as char, (b'1' + (s / 8)) as char)
}

/// structural position for traces validated by TLC (ChessRules!FromJson)
pub fn project_struct(b: &Board) -> Value {
    json!({
        "bd": codes(b),
        "stm": if b.active_color() == Color::White { "w" } else { "b" },
        "cr": rights(b),
        "ep": b.en_passant_target.map(|s| s as i32).unwrap_or(-1),
    })
}

/// four-field FEN text of the board, rendered by the harness ('?' marks an inconsistent square).
/// Must agree character for character with ChessRules!ToFEN4.
pub fn project(b: &Board) -> String {
    let cs = codes(b);
    let mut out = String::new();
    for r in (0..8).rev() {
        let mut run = 0;
        for f in 0..8 {
            let c = cs[r * 8 + f];
            if c == 0 {
                run += 1;
            } else {
                if run > 0 {
                    out.push_str(&run.to_string());
                    run = 0;
                }
                if c == 99 {
                    out.push('?');
                } else {
                    out.push(PIECE_CH[(c - 1) as usize] as char);
                }
            }
        }
        if run > 0 {
            out.push_str(&run.to_string());
        }
        if r > 0 {
            out.push('/');
        }
    }
    out.push(' ');
    out.push(if b.active_color() == Color::White { 'w' } else { 'b' });
    out.push(' ');
    let cr = rights(b);
    if cr.is_empty() {
        out.push('-');
    } else {
        for c in cr {
            out.push_str(c);
        }
    }
    out.push(' ');
    match b.en_passant_target {
        None => out.push('-'),
        Some(s) => out.push_str(&sq_name(s)),
    }
    out
}

/// Build a Board from piece codes / side / rights / e.p. without the engine's FEN parser.
pub fn build_from(cs: &[i32], stm_white: bool, cr: &str, ep: Option<u8>) -> Board {
    let mut position = Position::new();
    for (s, &c) in cs.iter().enumerate() {
        if c >= 1 && c <= 12 {
            let color = if c <= 6 { Color::White } else { Color::Black };
            let piece = PIECES[((c - 1) % 6) as usize];
            position.add_piece(color, piece, s as u8);
        }
    }
    Board {
        position,
        active_color: if stm_white { Color::White } else { Color::Black },
        castling_ability: Castle::new(
            cr.contains('K'),
            cr.contains('Q'),
            cr.contains('k'),
            cr.contains('q'),
        ),
        en_passant_target: ep,
        halfmove_clock: 0,
        fullmove_counter: 1,
    }
}

/// project() plus the two move counters when they are not the defaults (so that a replay rebuilds the same board)
pub fn project6(b: &Board) -> String {
    let (h, m) = (b.halfmove_clock as u64, b.fullmove_counter as u64);
    if h == 0 && m == 1 {
        project(b)
    } else {
        format!("{} {} {}", project(b), h, m)
    }
}

/// Parse the four-field FEN text produced by ChessRules!ToFEN4 (own parser, trusted).
pub fn build(fen4: &str) -> Result<Board, String> {
    let f: Vec<&str> = fen4.split(' ').collect();
    if f.len() < 4 {
        return Err(format!("bad fen4 '{}'", fen4));
    }
    let mut cs = vec![0i32; 64];
    let rows: Vec<&str> = f[0].split('/').collect();
    if rows.len() != 8 {
        return Err(format!("bad placement '{}'", f[0]));
    }
    for (i, row) in rows.iter().enumerate() {
        let r = 7 - i;
        let mut file = 0usize;
        for ch in row.bytes() {
            if ch.is_ascii_digit() {
                file += (ch - b'0') as usize;
            } else {
                let idx = PIECE_CH
                    .iter()
                    .position(|&c| c == ch)
                    .ok_or_else(|| format!("bad piece char in '{}'", fen4))?;
                if file > 7 {
                    return Err(format!("rank overflow in '{}'", fen4));
                }
                cs[r * 8 + file] = idx as i32 + 1;
                file += 1;
            }
        }
        if file != 8 {
            return Err(format!("rank length in '{}'", fen4));
        }
    }
    let ep = if f[3] == "-" {
        None
    } else {
        let b = f[3].as_bytes();
        Some((b[0] - b'a') + 8 * (b[1] - b'1'))
    };
    let mut board = build_from(&cs, f[1] == "w", if f[2] == "-" { "" } else { f[2] }, ep);
    // optional move counters (fields 5 and 6): the same position with another game clock
    if f.len() >= 6 {
        if let (Ok(h), Ok(m)) = (f[4].parse::<u16>(), f[5].parse::<u16>()) {
            board.halfmove_clock = h as _;
            board.fullmove_counter = m as _;
        }
    }
    let back = project(&board);
    if back != f[..4].join(" ") {
        return Err(format!("round trip '{}' -> '{}'", fen4, back));
    }
    Ok(board)
}

pub fn build_struct(p: &Value) -> Board {
    let cs: Vec<i32> = p["bd"].as_array().unwrap().iter().map(|v| v.as_i64().unwrap() as i32).collect();
    let cr: String = p["cr"].as_array().unwrap().iter().map(|v| v.as_str().unwrap()).collect();
    let ep = p["ep"].as_i64().unwrap();
    build_from(&cs, p["stm"] == "w", &cr, if ep < 0 { None } else { Some(ep as u8) })
}

/// UCI text of a move computed from the Move's fields (identity of a move = from, to, promotion
/// piece), independent of Move::to_algebraic.
pub fn move_text(m: &Move) -> String {
    let promo = if m.move_type == MoveType::Promotion {
        match m.piece_type {
            Piece::Knight => "n",
            Piece::Bishop => "b",
            Piece::Rook => "r",
            Piece::Queen => "q",
            _ => "?",
        }
    } else {
        ""
    };
    format!("{}{}{}", sq_name(m.from), sq_name(m.to), promo)
}

// ---------------------------------------------------------------------------------------------
// Independent (harness-side) attack test on piece codes, used ONLY to keep positions in which the side
// not to move is in check away from the engine (it would capture the king: panic or endless search).
// It deliberately does not use the engine's own check test, so that a defect there cannot let such
// positions through.  Never part of an oracle: TLC re-decides Valid for everything that is judged.
// codes: 0 empty, 1..6 white P N B R Q K, 7..12 black.
// ---------------------------------------------------------------------------------------------
pub fn attacked_by(cs: &[i32], sq: usize, by_white: bool) -> bool {
    let (f, r) = ((sq % 8) as i32, (sq / 8) as i32);
    let on = |f: i32, r: i32| (0..8).contains(&f) && (0..8).contains(&r);
    let at = |f: i32, r: i32| cs[(r * 8 + f) as usize];
    let base = if by_white { 0 } else { 6 };
    let pr = if by_white { r - 1 } else { r + 1 };
    for df in [-1, 1] {
        if on(f + df, pr) && at(f + df, pr) == base + 1 {
            return true;
        }
    }
    for (df, dr) in [(1, 2), (2, 1), (2, -1), (1, -2), (-1, -2), (-2, -1), (-2, 1), (-1, 2)] {
        if on(f + df, r + dr) && at(f + df, r + dr) == base + 2 {
            return true;
        }
    }
    for (df, dr) in [(1, 0), (-1, 0), (0, 1), (0, -1), (1, 1), (1, -1), (-1, 1), (-1, -1)] {
        if on(f + df, r + dr) && at(f + df, r + dr) == base + 6 {
            return true;
        }
        let diag = df != 0 && dr != 0;
        let (mut x, mut y) = (f + df, r + dr);
        while on(x, y) {
            let c = at(x, y);
            if c != 0 {
                if c == base + 5 || (diag && c == base + 3) || (!diag && c == base + 4) {
                    return true;
                }
                break;
            }
            x += df;
            y += dr;
        }
    }
    false
}

/// one king each, kings not adjacent, no pawn on a back rank, the side NOT to move not in check
pub fn playable(cs: &[i32], white_to_move: bool) -> bool {
    let wk: Vec<usize> = (0..64).filter(|&s| cs[s] == 6).collect();
    let bk: Vec<usize> = (0..64).filter(|&s| cs[s] == 12).collect();
    if wk.len() != 1 || bk.len() != 1 {
        return false;
    }
    if (0..8).chain(56..64).any(|s| cs[s] == 1 || cs[s] == 7) {
        return false;
    }
    let (a, b) = (wk[0] as i32, bk[0] as i32);
    if (a % 8 - b % 8).abs() <= 1 && (a / 8 - b / 8).abs() <= 1 {
        return false;
    }
    if white_to_move {
        !attacked_by(cs, bk[0], true)
    } else {
        !attacked_by(cs, wk[0], false)
    }
}

pub fn playable_board(b: &Board) -> bool {
    playable(&codes(b), b.active_color() == crate::pieces::Color::White)
}
