//! Step-level traces of the real search for SearchTrace.tla.
//!
//! The event sink in src/search.rs (cfg flounder_verif) records one event per critical section of
//! find_best_move / negamax / search_until_quiet.  This module runs searches (optionally interrupted
//! ones first, by a poll budget), then turns the recorded boards into the game graph the PlusCal
//! specification runs on: every position that was entered gets an id, its generated moves (children
//! ids, generation order), its tactical subset, check flag and static evaluation.  TLC then EXECUTES
//! Search.tla on that graph and every recorded event has to match the specification's step.
//!
//! One JSON document per case:  {"fen", "D", "aborts", "budget", "graph": {...}, "events": [...]}

use crate::board::Board;
use crate::eval::Evaluator;
use crate::move_gen::MoveGenerator;
use crate::moves::{Move, MoveType};
use crate::proj;
use crate::search::verif::Ev;
use crate::search::Searcher;
use crate::transposition::Bounds;
use rand::{Rng, SeedableRng};
use serde_json::{json, Value};
use std::collections::HashMap;
use std::io::Write;
use std::panic::{catch_unwind, AssertUnwindSafe};

fn arg(args: &[String], name: &str, default: &str) -> String {
    args.iter().position(|a| a == name).and_then(|i| args.get(i + 1).cloned()).unwrap_or_else(|| default.to_string())
}

struct G {
    index: HashMap<String, usize>,
    boards: Vec<Board>,
    expanded: Vec<bool>,
    moves: Vec<Vec<usize>>, // children ids (1-based)
    tact: Vec<Vec<usize>>,  // indices (1-based) into moves
    chk: Vec<bool>,
    ev: Vec<i32>,
    mattr: Vec<Vec<[i64; 5]>>,            // per move: [type, attacker kind, kind on the target square, move id, history key id]
    mids: HashMap<(u8, u8, usize, u8), i64>, // identity of a Move (from, to, piece, type) -> id
    hids: HashMap<(u8, u8), i64>,          // history key (from, to) -> id
}

impl G {
    fn id(&mut self, b: &Board) -> usize {
        let k = proj::project(b);
        if let Some(&i) = self.index.get(&k) {
            return i;
        }
        self.boards.push(*b);
        self.expanded.push(false);
        self.moves.push(vec![]);
        self.tact.push(vec![]);
        self.chk.push(false);
        self.ev.push(0);
        self.mattr.push(vec![]);
        let i = self.boards.len();
        self.index.insert(k, i);
        i
    }

    fn expand(&mut self, mg: &MoveGenerator, evl: &mut Evaluator, b: &Board) -> usize {
        let i = self.id(b);
        if self.expanded[i - 1] {
            return i;
        }
        self.expanded[i - 1] = true;
        let ms = mg.generate_moves(b);
        let chk = mg.is_in_check(b);
        let q = if chk { vec![] } else { mg.generate_quiescence_moves(b) };
        let kids: Vec<usize> = ms.iter().map(|m| self.id(&b.clone_with_move(m))).collect();
        let cs = proj::codes(b);
        let kind = |c: i32| -> i64 { if c == 0 { 0 } else { ((c - 1) % 6 + 1) as i64 } };
        let mut attrs = vec![];
        for m in &ms {
            let ty: u8 = match m.move_type {
                MoveType::Quiet => 0,
                MoveType::Capture => 1,
                MoveType::EnPassant => 2,
                MoveType::Castle => 3,
                MoveType::Promotion => 4,
            };
            let n1 = self.mids.len() as i64 + 1;
            let mid = *self.mids.entry((m.from, m.to, m.piece_type.index(), ty)).or_insert(n1);
            let n2 = self.hids.len() as i64 + 1;
            let hid = *self.hids.entry((m.from, m.to)).or_insert(n2);
            attrs.push([ty as i64, kind(cs[m.from as usize]), kind(cs[m.to as usize]), mid, hid]);
        }
        self.mattr[i - 1] = attrs;
        self.tact[i - 1] = q.iter().filter_map(|m| ms.iter().position(|x| x == m).map(|j| j + 1)).collect();
        self.moves[i - 1] = kids;
        self.chk[i - 1] = chk;
        self.ev[i - 1] = evl.evaluate(b);
        i
    }

    fn child(&mut self, b: &Board, m: &Move) -> usize {
        self.id(&b.clone_with_move(m))
    }
}

fn bcode(b: &Bounds) -> &'static str {
    match b {
        Bounds::Exact => "E",
        Bounds::Lower => "L",
        Bounds::Upper => "U",
    }
}

/// one case: `aborts` searches interrupted at the `budget`-th poll, then a completed one, all to depth `d`
fn case(mg: &MoveGenerator, root: &Board, d: u8, aborts: u32, budget: u64, hist: &[Board]) -> Option<Value> {
    let mut s = Searcher::new();
    for h in hist {
        s.push_position(h);
    }
    let mut raw: Vec<Vec<(u64, Ev)>> = vec![];
    let mut tables = vec![];
    for round in 0..=aborts {
        crate::timer::verif::set_poll_limit(if round < aborts { Some(budget) } else { None });
        crate::search::verif::set_sink(true);
        let r = catch_unwind(AssertUnwindSafe(|| s.find_best_move(root, d, None)));
        let evs = crate::search::verif::set_sink(false);
        crate::timer::verif::set_poll_limit(None);
        if r.is_err() {
            return None;
        }
        raw.push(evs);
        tables.push(s.verif_tt_entries());
    }
    // ---- the graph: every position entered by the search, expanded
    let mut g = G { index: HashMap::new(), boards: vec![], expanded: vec![], moves: vec![], tact: vec![], chk: vec![], ev: vec![],
                    mattr: vec![], mids: HashMap::new(), hids: HashMap::new() };
    let mut evl = Evaluator::new();
    // ids 1..M are the positions the search entered (the table and the evaluation are only ever
    // consulted there); their other children get ids above M
    g.id(root);
    for evs in &raw {
        for (_, e) in evs {
            match e {
                Ev::Neg { board, .. } | Ev::Quiet { board, .. } => {
                    g.id(board);
                }
                _ => {}
            }
        }
    }
    let entered = g.boards.len();
    g.expand(mg, &mut evl, root);
    for evs in &raw {
        for (_, e) in evs {
            match e {
                Ev::Neg { board, .. } | Ev::Quiet { board, .. } => {
                    g.expand(mg, &mut evl, board);
                }
                _ => {}
            }
        }
    }
    let hist_ids: Vec<usize> = hist.iter().map(|h| g.id(h)).collect();
    // ---- events with position ids
    let mut out = vec![];
    for (round, evs) in raw.iter().enumerate() {
        out.push(json!({"e":"S","round":round,"budget": if (round as u32) < aborts { budget } else { 0 }}));
        let mut stack: Vec<Board> = vec![]; // boards of the open negamax frames (to resolve moves)
        let mv_id = |g: &mut G, b: &Board, m: &Option<Move>| -> usize { m.as_ref().map(|m| g.child(b, m)).unwrap_or(0) };
        for (polls, e) in evs {
            match e {
                Ev::Neg { board, depth, ply, alpha, beta, nodes } => {
                    stack.push(*board);
                    out.push(json!({"e":"N","p":g.id(board),"d":depth,"ply":ply,"a":alpha,"b":beta,"nodes":nodes,"polls":polls}));
                }
                Ev::Order { moves } => {
                    let b = *stack.last().unwrap();
                    let ms: Vec<usize> = moves.iter().map(|m| g.child(&b, m)).collect();
                    out.push(json!({"e":"O","ms":ms}));
                }
                Ev::NegRet { kind, score, mv, bound } => {
                    let b = stack.pop().unwrap();
                    out.push(json!({"e":"X","k":kind,"s":score,"m":mv_id(&mut g, &b, mv),"bd":bound.as_ref().map(bcode).unwrap_or("-"),"polls":polls}));
                }
                Ev::Quiet { board, alpha, beta, moves, nodes } => {
                    let ms: Vec<usize> = moves.iter().map(|m| g.child(board, m)).collect();
                    out.push(json!({"e":"Q","p":g.id(board),"a":alpha,"b":beta,"ms":ms,"nodes":nodes,"polls":polls}));
                }
                Ev::QuietRet { score } => out.push(json!({"e":"Y","s":score})),
                Ev::Kept { depth, score, mv } => out.push(json!({"e":"K","d":depth,"s":score,"m":mv_id(&mut g, root, mv)})),
                Ev::Result { score, mv } => {
                    let mut by_hash: HashMap<u64, usize> = HashMap::new();
                    for (i, b) in g.boards.iter().enumerate() {
                        by_hash.insert(s.verif_hash(b), i + 1);
                    }
                    let mut tt: Vec<Value> = vec![];
                    for en in &tables[round] {
                        let id = by_hash.get(&en.hash_key).copied().unwrap_or(0);
                        let m = if id > 0 { let b = g.boards[id - 1]; mv_id(&mut g, &b, &en.best_move) } else { 0 };
                        tt.push(json!([id, en.depth, en.eval, bcode(&en.bounds), m]));
                    }
                    tt.sort_by_key(|v| v[0].as_u64());
                    out.push(json!({"e":"R","s":score,"m":mv_id(&mut g, root, mv),"tt":tt,"polls":polls}));
                }
            }
        }
    }
    let n = entered;
    g.moves.truncate(n);
    g.tact.truncate(n);
    g.chk.truncate(n);
    g.ev.truncate(n);
    g.mattr.truncate(n);
    Some(json!({
        "fen": proj::project(root), "D": d, "aborts": aborts, "budget": budget,
        "graph": {"n": n, "moves": g.moves, "tact": g.tact, "chk": g.chk, "ev": g.ev, "hist": hist_ids, "all_positions": g.boards.len(),
                   "mattr": g.mattr, "nh": g.hids.len()},
        "events": out,
    }))
}

fn random_boards(mg: &MoveGenerator, rng: &mut rand::rngs::StdRng, want: usize) -> Vec<Board> {
    let mut boards = vec![];
    while boards.len() < want {
        let mut b = Board::default();
        let stop_at = rng.gen_range(2..140);
        for ply in 0..stop_at {
            let moves = mg.generate_moves(&b);
            if moves.is_empty() {
                break;
            }
            if ply + 1 == stop_at {
                boards.push(b);
            }
            let caps: Vec<&Move> = moves.iter().filter(|m| m.move_type != MoveType::Quiet).collect();
            let m = if !caps.is_empty() && rng.gen_bool(0.5) { *caps[rng.gen_range(0..caps.len())] } else { moves[rng.gen_range(0..moves.len())] };
            b.make_move(&m);
        }
    }
    boards
}

/// fh search-steps --out-dir DIR [--fens FILE] [--positions N] [--depth D] [--aborts A] [--seed S] [--max-events M]
/// writes DIR/case_<i>.json and prints one summary line per case
pub fn steps(args: &[String]) -> i32 {
    let seed: u64 = arg(args, "--seed", "1").parse().unwrap();
    let want: usize = arg(args, "--positions", "4").parse().unwrap();
    let depth: u8 = arg(args, "--depth", "2").parse().unwrap();
    let aborts: u32 = arg(args, "--aborts", "0").parse().unwrap();
    let max_events: usize = arg(args, "--max-events", "6000").parse().unwrap();
    let fens = arg(args, "--fens", "");
    let dir = arg(args, "--out-dir", ".");
    let mg = MoveGenerator::new();
    let mut rng = rand::rngs::StdRng::seed_from_u64(seed);
    let mut boards: Vec<Board> = vec![];
    if !fens.is_empty() {
        for l in std::fs::read_to_string(&fens).unwrap().lines() {
            if let Ok(b) = proj::build(l.trim()) {
                boards.push(b);
            }
        }
    } else {
        boards = random_boards(&mg, &mut rng, want * 6);
    }
    let mut done = 0usize;
    let mut skipped_big = 0usize;
    for b in boards {
        if done >= want {
            break;
        }
        if mg.generate_moves(&b).is_empty() {
            continue;
        }
        // an interruption point inside the search: measured on a complete run first
        let budget = if aborts > 0 {
            let mut s = Searcher::new();
            crate::timer::verif::set_poll_limit(None);
            if catch_unwind(AssertUnwindSafe(|| s.find_best_move(&b, depth, None))).is_err() {
                continue;
            }
            let total = crate::timer::verif::poll_stats().0.max(2);
            rng.gen_range(1..=total)
        } else {
            0
        };
        // every second case carries a game history in which the root's successors may have occurred
        let mut hist: Vec<Board> = vec![];
        if rng.gen_bool(0.5) {
            let ms = mg.generate_moves(&b);
            let m = ms[rng.gen_range(0..ms.len())];
            let c = b.clone_with_move(&m);
            let reps = rng.gen_range(1..=2);
            for _ in 0..reps {
                hist.push(c);
                hist.push(b);
            }
        }
        match case(&mg, &b, depth, aborts, budget, &hist) {
            Some(v) => {
                let n = v["events"].as_array().map(|a| a.len()).unwrap_or(0);
                if n > max_events {
                    skipped_big += 1;
                    continue;
                }
                let p = format!("{}/case_{}.json", dir, done);
                std::fs::write(&p, serde_json::to_string(&v).unwrap()).unwrap();
                println!("{}", json!({"case":p,"fen":v["fen"],"events":n,"nodes":v["graph"]["n"],"D":depth,"aborts":aborts,"budget":budget,"hist":hist.len()}));
                done += 1;
            }
            None => {
                println!("{}", json!({"panic":proj::project(&b)}));
            }
        }
    }
    println!("{}", json!({"summary":true,"cases":done,"skipped_too_many_events":skipped_big}));
    0
}
