//! C15: the transposition table.
//! `tt-replay`: every behaviour of the bounded model TT.tla (store histories printed by TLC with the
//! expected table) is replayed on the real TranspositionTable under several adversarial key and
//! payload mappings.  `tt-record`: random store/retrieve histories of the real table, logged for
//! TTTrace.tla.

use crate::moves::{Move, MoveType};
use crate::pieces::Piece;
use crate::transposition::{Bounds, Entry, TranspositionTable};
use rand::{Rng, SeedableRng};
use serde_json::{json, Value};
use std::io::{BufRead, Write};
use std::panic::{catch_unwind, AssertUnwindSafe};

fn arg(args: &[String], name: &str, default: &str) -> String {
    args.iter().position(|a| a == name).and_then(|i| args.get(i + 1).cloned()).unwrap_or_else(|| default.to_string())
}

fn bname(b: Bounds) -> &'static str {
    match b {
        Bounds::Exact => "Exact",
        Bounds::Lower => "Lower",
        Bounds::Upper => "Upper",
    }
}

fn data_text(eval: i32, mv: Option<Move>, b: Bounds) -> String {
    format!("{}|{}|{}", eval, mv.map(|m| crate::proj::move_text(&m)).unwrap_or_else(|| "-".into()), bname(b))
}

fn entry_text(e: &Entry) -> String {
    data_text(e.eval, e.best_move, e.bounds)
}

type Payload = (i32, Option<Move>, Bounds);

fn payload_maps() -> Vec<[Payload; 2]> {
    let m1 = Move::new(12, 28, Piece::Pawn, MoveType::Quiet);
    let m2 = Move::new(12, 20, Piece::Pawn, MoveType::Quiet);
    vec![
        [(10, None, Bounds::Exact), (10, None, Bounds::Lower)],
        [(-5, Some(m1), Bounds::Upper), (-5, Some(m2), Bounds::Upper)],
        [(i32::MIN + 1, Some(m1), Bounds::Exact), (i32::MAX, Some(m1), Bounds::Exact)],
        [(0, None, Bounds::Upper), (0, Some(m1), Bounds::Upper)],
    ]
}

pub fn key_sets() -> Vec<[u64; 3]> {
    let mut v = key_sets_base();
    // keys that differ in ONE bit, for every bit position (an index / signature scheme that ignores some bits
    // of the key confuses exactly such keys), and in one low and one high bit
    let base = 0x9E3779B97F4A7C15u64;
    for b in 0..64u32 {
        v.push([base, base ^ (1u64 << b), base ^ (1u64 << ((b + 29) % 64))]);
    }
    for b in 0..32u32 {
        v.push([!base, !base ^ (1u64 << b) ^ (1u64 << (63 - b)), (!base).rotate_left(b)]);
    }
    v
}

fn key_sets_base() -> Vec<[u64; 3]> {
    vec![
        [0, u64::MAX, 1],
        [1, 1 + (1u64 << 32), 1 + (1u64 << 48)],
        [0xABCD, 0xABCD + (1u64 << 16), 0xABCD + (1u64 << 20)],
        [1u64 << 63, (1u64 << 63) - 1, (1u64 << 63) + 1],
        [0x9E3779B97F4A7C15, 0x9E3779B97F4A7C15u64.rotate_left(32), 0x9E3779B97F4A7C15 ^ 1],
    ]
}

pub fn replay(_args: &[String]) -> i32 {
    let stdin = std::io::stdin();
    let mut w = std::io::BufWriter::new(std::io::stdout());
    let (mut histories, mut runs, mut lookups, mut mism, mut drift) = (0u64, 0u64, 0u64, 0u64, 0u64);
    let pm = payload_maps();
    let ks = key_sets();
    let kidx = |k: &str| -> usize { k[1..].parse::<usize>().unwrap() - 1 };
    for line in stdin.lock().lines() {
        let line = line.unwrap();
        if line.trim().is_empty() {
            continue;
        }
        let rec: Value = serde_json::from_str(&line).unwrap();
        histories += 1;
        let log = rec["log"].as_array().unwrap();
        for (ki, keys) in ks.iter().enumerate() {
            for (pi, pay) in pm.iter().enumerate() {
                // to bound the work every history runs under all key sets with one payload map, and
                // under all payload maps with one key set
                if ki != (histories as usize % ks.len()) && pi != (histories as usize % pm.len()) {
                    continue;
                }
                runs += 1;
                let res = catch_unwind(AssertUnwindSafe(|| {
                    let mut t = TranspositionTable::new();
                    for op in log {
                        let k = keys[kidx(op["key"].as_str().unwrap())];
                        let p = pay[if op["data"] == "a" { 0 } else { 1 }];
                        t.store(k, p.0, p.1, op["depth"].as_u64().unwrap() as u8, p.2);
                    }
                    let mut answers = vec![];
                    for (name, exp) in rec["tt"].as_object().unwrap() {
                        let k = keys[kidx(name)];
                        let got = t.retrieve(k).map(|e| (e.hash_key, e.depth, entry_text(e)));
                        answers.push((name.clone(), k, exp.clone(), got));
                    }
                    answers
                }));
                let answers = match res {
                    Ok(a) => a,
                    Err(_) => {
                        mism += 1;
                        writeln!(w, "{}", json!({"k":"MISMATCH","property":"C15","check":"panic","log":log,"tt":rec["tt"],"keys":keys.iter().map(|k| k.to_string()).collect::<Vec<_>>()})).ok();
                        continue;
                    }
                };
                for (name, k, exp, got) in answers {
                    lookups += 1;
                    let exp_depth = exp["depth"].as_i64().unwrap();
                    let exp_some = exp_depth >= 0;
                    match got {
                        None => {
                            if exp_some {
                                drift += 1; // allowed by the property (a lookup may return nothing)
                            }
                        }
                        Some((hk, d, text)) => {
                            let want = if exp_some {
                                let p = pay[if exp["data"] == "a" { 0 } else { 1 }];
                                Some((exp_depth as u8, data_text(p.0, p.1, p.2)))
                            } else {
                                None
                            };
                            let ok = hk == k && want == Some((d, text.clone()));
                            if !ok {
                                mism += 1;
                                if mism <= 50 {
                                    writeln!(w, "{}", json!({"k":"MISMATCH","property":"C15","check":"lookup","log":log,"tt":rec["tt"],"key":name,
                                        "keys":keys.iter().map(|k| k.to_string()).collect::<Vec<_>>(),"payload_map":pi,
                                        "expected":exp,"got":{"hash_key":hk.to_string(),"depth":d,"data":text}})).ok();
                                }
                            }
                        }
                    }
                }
            }
        }
    }
    writeln!(w, "{}", json!({"k":"SUMMARY","histories":histories,"table_runs":runs,"lookups":lookups,"mismatches":mism,"nothing_returned_where_model_has_entry":drift})).ok();
    0
}

pub fn record(args: &[String]) -> i32 {
    let seed: u64 = arg(args, "--seed", "1").parse().unwrap();
    let histories: usize = arg(args, "--histories", "20").parse().unwrap();
    let ops: usize = arg(args, "--ops", "300").parse().unwrap();
    let mut rng = rand::rngs::StdRng::seed_from_u64(seed);
    let mut w = std::io::BufWriter::new(std::io::stdout());
    let forced = arg(args, "--forced", "");
    if !forced.is_empty() {
        // re-execute a recorded history (same keys, same operations) on the current code
        let mut t = TranspositionTable::new();
        let mut keys: Vec<u64> = vec![];
        for l in std::fs::read_to_string(&forced).unwrap().lines() {
            let e: Value = serde_json::from_str(l).unwrap();
            match e["ev"].as_str().unwrap() {
                "new" => {
                    keys = e["keys"].as_array().unwrap().iter().map(|k| k.as_str().unwrap().parse().unwrap()).collect();
                    t = TranspositionTable::new();
                    writeln!(w, "{}", e).ok();
                }
                "store" => {
                    let parts: Vec<&str> = e["data"].as_str().unwrap().split('|').collect();
                    let mv = if parts[1] == "-" {
                        None
                    } else {
                        let b = parts[1].as_bytes();
                        Some(Move::new((b[0] - b'a') + 8 * (b[1] - b'1'), (b[2] - b'a') + 8 * (b[3] - b'1'), Piece::Pawn, MoveType::Quiet))
                    };
                    let bd = match parts[2] {
                        "Exact" => Bounds::Exact,
                        "Lower" => Bounds::Lower,
                        _ => Bounds::Upper,
                    };
                    t.store(keys[e["key"].as_u64().unwrap() as usize], parts[0].parse().unwrap(), mv, e["depth"].as_u64().unwrap() as u8, bd);
                    writeln!(w, "{}", e).ok();
                }
                "retrieve" => {
                    let ki = e["key"].as_u64().unwrap() as usize;
                    match t.retrieve(keys[ki]).copied() {
                        None => writeln!(w, "{}", json!({"ev":"retrieve","key":ki,"found":false,"rkey":-1,"rdepth":-1,"rdata":"none"})).ok(),
                        Some(en) => {
                            let rk = keys.iter().position(|k| *k == en.hash_key).map(|i| i as i64).unwrap_or(-1);
                            writeln!(w, "{}", json!({"ev":"retrieve","key":ki,"found":true,"rkey":rk,"rdepth":en.depth,"rdata":entry_text(&en)})).ok()
                        }
                    };
                }
                _ => {}
            }
        }
        w.flush().ok();
        return 0;
    }
    // 16 keys per history drawn from adversarial families (equal modulo 2^16 / 2^32, extremes, random)
    for h in 0..histories {
        let base: u64 = rng.gen();
        let mut keys: Vec<u64> = vec![0, u64::MAX, 1, 1u64 << 63];
        for i in 0..4u64 {
            keys.push(base.wrapping_add(i << 16));
        }
        for i in 1..5u64 {
            keys.push(base.wrapping_add(i << 32));
        }
        // pairs differing in a single random bit
        for _ in 0..3 {
            let k: u64 = rng.gen();
            keys.push(k);
            keys.push(k ^ (1u64 << rng.gen_range(0..64)));
        }
        while keys.len() < 16 {
            keys.push(rng.gen());
        }
        keys.sort();
        keys.dedup();
        let nk = keys.len();
        let mut t = TranspositionTable::new();
        writeln!(w, "{}", json!({"ev":"new","history":h,"keys":keys.iter().map(|k| k.to_string()).collect::<Vec<_>>()})).ok();
        let moves = [None, Some(Move::new(12, 28, Piece::Pawn, MoveType::Quiet)), Some(Move::new(6, 21, Piece::Knight, MoveType::Quiet))];
        let maxd = [2u8, 4, 255][h % 3];
        for _ in 0..ops {
            let ki = rng.gen_range(0..nk);
            if rng.gen_bool(0.55) {
                let d: u8 = if maxd == 255 { rng.gen() } else { rng.gen_range(0..=maxd) };
                let eval: i32 = [0, 1, -1, 32767, -32767, i32::MAX - 1000, rng.gen()][rng.gen_range(0..7)];
                let mv = moves[rng.gen_range(0..3)];
                let b = [Bounds::Exact, Bounds::Lower, Bounds::Upper][rng.gen_range(0..3)];
                if catch_unwind(AssertUnwindSafe(|| t.store(keys[ki], eval, mv, d, b))).is_err() {
                    writeln!(w, "{}", json!({"ev":"panic","where":"store"})).ok();
                    break;
                }
                writeln!(w, "{}", json!({"ev":"store","key":ki,"depth":d,"data":data_text(eval, mv, b)})).ok();
            } else {
                let got = match catch_unwind(AssertUnwindSafe(|| t.retrieve(keys[ki]).copied())) {
                    Ok(g) => g,
                    Err(_) => {
                        writeln!(w, "{}", json!({"ev":"panic","where":"retrieve"})).ok();
                        break;
                    }
                };
                match got {
                    None => writeln!(w, "{}", json!({"ev":"retrieve","key":ki,"found":false,"rkey":-1,"rdepth":-1,"rdata":"none"})).ok(),
                    Some(e) => {
                        let rk = keys.iter().position(|k| *k == e.hash_key).map(|i| i as i64).unwrap_or(-1);
                        writeln!(w, "{}", json!({"ev":"retrieve","key":ki,"found":true,"rkey":rk,"rdepth":e.depth,"rdata":entry_text(&e)})).ok()
                    }
                };
            }
        }
    }
    w.flush().ok();
    0
}

// ---------------------------------------------------------------------------------------------
// The table INSIDE the engine, across searches (C15 "a result from a shallower search never replaces one
// from a deeper search of the same position").  tt-replay / tt-record drive store / retrieve directly; anything
// the Searcher does to its table between or around the stores (a generation counter advanced per search, an
// ageing sweep) is invisible there.  Here one Searcher runs a sequence of real searches; after each one the
// whole table is read back (verif_tt_entries) and joined with the table before it.  Only the join is done here:
// for every key present before and after whose entry changed, [key, depth before, depth after].  TTSearchTrace.tla
// judges.  Entries that disappeared are counted (eviction is the named deviation of TT.tla).
// ---------------------------------------------------------------------------------------------
pub fn searches(args: &[String]) -> i32 {
    use crate::board::Board;
    use crate::move_gen::MoveGenerator;
    use crate::search::Searcher;
    use std::collections::HashMap;
    let seed: u64 = arg(args, "--seed", "1").parse().unwrap();
    let roots: usize = arg(args, "--roots", "4").parse().unwrap();
    let deep: u8 = arg(args, "--deep", "4").parse().unwrap();
    let out = arg(args, "--out", "");
    let mg = MoveGenerator::new();
    let mut rng = rand::rngs::StdRng::seed_from_u64(seed);
    // (the engine prints its info lines to stdout: events go to a file)
    let mut w = std::io::BufWriter::new(std::fs::File::create(&out).unwrap());
    for _ in 0..roots {
        // a position from a random game (plies 0..40)
        let mut b = Board::default();
        let plies = rng.gen_range(0..40);
        for _ in 0..plies {
            let ms = mg.generate_moves(&b);
            if ms.is_empty() {
                break;
            }
            b.make_move(&ms[rng.gen_range(0..ms.len())]);
        }
        let ms = mg.generate_moves(&b);
        if ms.is_empty() {
            continue;
        }
        let child = b.clone_with_move(&ms[rng.gen_range(0..ms.len())]);
        let plan: Vec<(Board, u8)> = vec![(b, deep), (b, 1), (b, 1), (b, 2), (child, deep.saturating_sub(1).max(1)), (b, 1), (b, deep)];
        let mut s = Searcher::new();
        let mut before: HashMap<u64, (u8, String)> = HashMap::new();
        writeln!(w, "{}", json!({"ev":"ttnew","fen":crate::proj::project(&b)})).ok();
        for (pos, d) in plan {
            let r = std::panic::catch_unwind(std::panic::AssertUnwindSafe(|| s.find_best_move(&pos, d, None)));
            if r.is_err() {
                writeln!(w, "{}", json!({"ev":"ttstep","fen":crate::proj::project(&pos),"depth":d,"panic":true})).ok();
                break;
            }
            let mut after: HashMap<u64, (u8, String)> = HashMap::new();
            for e in s.verif_tt_entries() {
                after.insert(e.hash_key, (e.depth, format!("{}:{:?}:{:?}", e.eval, e.best_move.map(|m| m.to_algebraic()), e.bounds)));
            }
            let mut changed = vec![];
            let (mut kept, mut gone) = (0u64, 0u64);
            for (k, (db, pb)) in before.iter() {
                match after.get(k) {
                    None => gone += 1,
                    Some((da, pa)) => {
                        if da == db && pa == pb {
                            kept += 1;
                        } else {
                            changed.push(json!([format!("{:016x}", k), db, da]));
                        }
                    }
                }
            }
            let new = after.keys().filter(|k| !before.contains_key(k)).count();
            writeln!(w, "{}", json!({"ev":"ttstep","fen":crate::proj::project(&pos),"depth":d,"changed":changed,"kept":kept,"gone":gone,"new":new})).ok();
            before = after;
        }
    }
    w.flush().ok();
    0
}
