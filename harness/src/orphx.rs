//! "Stored where it belongs" probe (C03: the move found in the table for the position last set must be a move of
//! THAT position, whatever was searched earlier).
//!
//! After a completed search of P on a fresh Searcher every table entry should be keyed by the hash of a position the
//! search entered.  An entry under another key (an ORPHAN) was stored for the wrong position.  That alone is only a
//! deviation from Search.tla (reported as drift); to turn it into an execution that contradicts C03 the probe looks
//! for a real position Q whose hash IS the orphan key among the look-alikes of the entered positions and of their
//! successors (one square changed, side to move, one castling right, the e.p. square) and, when it finds one, asks
//! the same Searcher for its best move in Q at a depth the entry satisfies.  TLC (PoisonTrace.tla) decides from
//! ChessRules whether Q is valid and whether the answer is one of its legal moves.

use crate::board::Board;
use crate::move_gen::MoveGenerator;
use crate::pieces::Color;
use crate::proj;
use crate::search::verif::Ev;
use crate::search::Searcher;
use serde_json::{json, Value};
use std::collections::{HashMap, HashSet};
use std::io::{BufRead, Write};
use std::panic::{catch_unwind, AssertUnwindSafe};

fn arg(args: &[String], name: &str, default: &str) -> String {
    args.iter().position(|a| a == name).and_then(|i| args.get(i + 1).cloned()).unwrap_or_else(|| default.to_string())
}

fn rights_text(b: &Board) -> String {
    proj::rights(b).concat()
}

/// look-alikes of b: one square changed, side to move swapped, one castling right toggled, e.p. square set / cleared
fn lookalikes(b: &Board) -> Vec<Board> {
    let cs = proj::codes(b);
    let white = b.active_color() == Color::White;
    let cr = rights_text(b);
    let ep = b.en_passant_target;
    let mut out = vec![];
    for s in 0..64usize {
        for c in 0..=12i32 {
            if c != cs[s] {
                let mut x = cs.clone();
                x[s] = c;
                out.push(proj::build_from(&x, white, &cr, ep));
            }
        }
    }
    out.push(proj::build_from(&cs, !white, &cr, ep));
    for r in ["K", "Q", "k", "q"] {
        let t = if cr.contains(r) { cr.replace(r, "") } else { format!("{}{}", cr, r) };
        out.push(proj::build_from(&cs, white, &t, ep));
    }
    if ep.is_some() {
        out.push(proj::build_from(&cs, white, &cr, None));
    }
    for s in (16..24u8).chain(40..48u8) {
        if Some(s) != ep {
            out.push(proj::build_from(&cs, white, &cr, Some(s)));
        }
    }
    out
}

/// synthetic seeds: sparse positions in which an en-passant capture is available at the root (the special moves are where
/// an incrementally maintained key is most easily wrong); proposals only - validity is decided by the specification
fn synthetic(seed: u64, n: usize) -> Vec<String> {
    use rand::{Rng, SeedableRng};
    let mut rng = rand::rngs::StdRng::seed_from_u64(seed);
    let mut out = vec![];
    let mut guard = 0;
    while out.len() < n && guard < n * 200 {
        guard += 1;
        let white = rng.gen_bool(0.5);
        let mut cs = vec![0i32; 64];
        let file = rng.gen_range(0..8usize);
        let side: i32 = if file == 0 { 1 } else if file == 7 { -1 } else if rng.gen_bool(0.5) { 1 } else { -1 };
        let cap_file = (file as i32 + side) as usize;
        // white to move: black pawn just played f7-f5 (now on rank index 4), white pawn beside it; target on rank index 5
        let (rank, target_rank, origin_rank, own, enemy) = if white { (4usize, 5usize, 6usize, 1, 7) } else { (3usize, 2usize, 1usize, 7, 1) };
        cs[rank * 8 + file] = enemy;
        cs[rank * 8 + cap_file] = own;
        let reserved = [target_rank * 8 + file, origin_rank * 8 + file];
        let mut place = |cs: &mut Vec<i32>, c: i32, rng: &mut rand::rngs::StdRng| {
            for _ in 0..50 {
                let s = rng.gen_range(0..64usize);
                if cs[s] == 0 && !reserved.contains(&s) && !((c == 1 || c == 7) && (s < 8 || s >= 56)) {
                    cs[s] = c;
                    return;
                }
            }
        };
        place(&mut cs, 6, &mut rng);
        place(&mut cs, 12, &mut rng);
        for _ in 0..rng.gen_range(0..6) {
            let c = [1, 7, 1, 7, 2, 8, 3, 9, 4, 10, 5, 11][rng.gen_range(0..12)];
            place(&mut cs, c, &mut rng);
        }
        if !proj::playable(&cs, white) {
            continue;
        }
        let b = proj::build_from(&cs, white, "", Some((target_rank * 8 + file) as u8));
        out.push(proj::project(&b));
    }
    out
}

pub fn orphans(args: &[String]) -> i32 {
    let fens = arg(args, "--fens", "");
    let depth: u8 = arg(args, "--depth", "3").parse().unwrap();
    let output = arg(args, "--out", "");
    let part = arg(args, "--part", "0/1");
    let (pi, pn): (usize, usize) = {
        let v: Vec<usize> = part.split('/').map(|x| x.parse().unwrap()).collect();
        (v[0], v[1])
    };
    let synth: usize = arg(args, "--synth", "0").parse().unwrap();
    let cap: u64 = arg(args, "--cap", "150000").parse().unwrap();
    let seed: u64 = arg(args, "--seed", "1").parse().unwrap();
    let mg = MoveGenerator::new();
    let mut w = std::io::BufWriter::new(std::fs::File::create(&output).unwrap());
    let f = std::fs::File::open(&fens).unwrap();
    let mut lines: Vec<String> = std::io::BufReader::new(f).lines().map(|l| l.unwrap()).collect();
    lines.extend(synthetic(seed.wrapping_mul(977).wrapping_add(pi as u64), synth).into_iter().enumerate().map(|(i, s)| {
        // spread over the shards whatever the shard of the seed list is
        let _ = i;
        s
    }));
    let n_file = lines.len() - synth.min(lines.len());
    for (n, line) in lines.iter().enumerate() {
        let fen = line.trim();
        let mine = if n < n_file { n % pn == pi } else { true };
        if !mine {
            continue;
        }
        if fen.is_empty() || fen.starts_with('#') {
            continue;
        }
        let root = match proj::build(fen) {
            Ok(b) => b,
            Err(_) => continue,
        };
        if !proj::playable_board(&root) {
            continue;
        }
        let mut s = Searcher::new();
        crate::timer::verif::set_poll_limit(None);
        // (a node budget keeps the event sink bounded in quiescence-explosive positions; a search cut off there is judged all the same:
        //  its table too must hold nothing but positions it entered)
        s.verif_set_node_limit(Some(cap));
        crate::search::verif::set_sink(true);
        let r = catch_unwind(AssertUnwindSafe(|| s.find_best_move(&root, depth, None)));
        let evs = crate::search::verif::set_sink(false);
        crate::timer::verif::set_node_limit(None);
        if r.is_err() {
            writeln!(w, "{}", json!({"ev":"orph","fen":fen,"depth":depth,"panic":true})).ok();
            continue;
        }
        let mut seen: HashSet<String> = HashSet::new();
        let mut entered: Vec<Board> = vec![];
        for (_, e) in &evs {
            if let Ev::Neg { board, .. } | Ev::Quiet { board, .. } = e {
                if seen.insert(proj::project(board)) {
                    entered.push(*board);
                }
            }
        }
        let hashes: HashSet<u64> = entered.iter().map(|b| s.verif_hash(b)).collect();
        let entries = s.verif_tt_entries();
        let orph: HashMap<u64, &crate::transposition::Entry> = entries.iter().filter(|e| !hashes.contains(&e.hash_key)).map(|e| (e.hash_key, e)).collect();
        writeln!(w, "{}", json!({"ev":"orph","fen":fen,"depth":depth,"entered":entered.len(),"entries":entries.len(),"orphans":orph.len()})).ok();
        if orph.is_empty() {
            continue;
        }
        // look for real positions behind the orphan keys
        // (priority, position, depth of the entry): entries that answer a root query directly (Exact) with a move the
        // engine's own generator does not list for Q come first - a selector only, TLC judges the outcome
        let mut found: Vec<(u8, Board, u8)> = vec![];
        let mut tried: HashSet<u64> = HashSet::new();
        'outer: for b in &entered {
            let mut bases = vec![*b];
            if let Ok(ms) = catch_unwind(AssertUnwindSafe(|| mg.generate_moves(b))) {
                for m in ms {
                    bases.push(b.clone_with_move(&m));
                }
            }
            for base in bases {
                for q in lookalikes(&base) {
                    let h = s.verif_hash(&q);
                    if let Some(en) = orph.get(&h) {
                        if tried.insert(h) && proj::playable_board(&q) {
                            let exact = matches!(en.bounds, crate::transposition::Bounds::Exact);
                            let listed = match (en.best_move, catch_unwind(AssertUnwindSafe(|| mg.generate_moves(&q)))) {
                                (Some(m), Ok(ms)) => ms.contains(&m),
                                _ => true,
                            };
                            let prio = if exact && !listed { 0 } else if !listed { 1 } else if exact { 2 } else { 3 };
                            found.push((prio, q, en.depth));
                            if found.len() >= 400 {
                                break 'outer;
                            }
                        }
                    }
                }
            }
        }
        found.sort_by_key(|x| x.0);
        found.truncate(8);
        for (_, q, d) in found {
            let d2 = d.max(1).min(depth);
            s.verif_set_node_limit(Some(cap));
            let r = catch_unwind(AssertUnwindSafe(|| s.find_best_move(&q, d2, None)));
            crate::timer::verif::set_node_limit(None);
            let mut ev = json!({"ev":"poison","first":fen,"d1":depth,"fen":proj::project(&q),"pos":proj::project_struct(&q),"d2":d2});
            match r {
                Ok((_, mv)) => ev["mv"] = json!(mv.map(|m| proj::move_text(&m)).unwrap_or_else(|| "0000".into())),
                Err(_) => ev["panic"] = json!(true),
            }
            writeln!(w, "{}", ev).ok();
        }
    }
    w.flush().ok();
    0
}
