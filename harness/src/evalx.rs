//! C14: static evaluation, observed through the public Evaluator::evaluate only.
//! For each input position p the harness evaluates p, SwapSide(p), Mirror(p) and p again, all on ONE
//! Evaluator, in a seeded random interleaving with the evaluations of every other position of the
//! batch.  The transforms are re-checked by TLC against the specification's own definitions.

use crate::board::Board;
use crate::eval::Evaluator;
use crate::pieces::Color;
use crate::proj;
use rand::seq::SliceRandom;
use rand::{Rng, SeedableRng};
use serde_json::{json, Value};
use std::io::Write;
use std::panic::{catch_unwind, AssertUnwindSafe};

fn arg(args: &[String], name: &str, default: &str) -> String {
    args.iter().position(|a| a == name).and_then(|i| args.get(i + 1).cloned()).unwrap_or_else(|| default.to_string())
}

fn swap_side(b: &Board) -> Board {
    let cs = proj::codes(b);
    let cr: String = proj::rights(b).concat();
    proj::build_from(&cs, b.active_color() != Color::White, &cr, None)
}

fn mirror(b: &Board) -> Board {
    let cs = proj::codes(b);
    let mut out = vec![0i32; 64];
    for s in 0..64usize {
        let c = cs[s ^ 56];
        out[s] = if c == 0 { 0 } else if c <= 6 { c + 6 } else { c - 6 };
    }
    let cr: String = proj::rights(b)
        .iter()
        .map(|r| match *r {
            "K" => "k",
            "Q" => "q",
            "k" => "K",
            _ => "Q",
        })
        .collect();
    proj::build_from(&out, b.active_color() != Color::White, &cr, b.en_passant_target.map(|e| e ^ 56))
}

pub fn record(args: &[String]) -> i32 {
    let seed: u64 = arg(args, "--seed", "1").parse().unwrap();
    let fens = arg(args, "--fens", "");
    let batch: usize = arg(args, "--batch", "200").parse().unwrap();
    let chunk_base: u64 = arg(args, "--chunk-base", "0").parse().unwrap();
    let mut w = std::io::BufWriter::new(std::io::stdout());
    let mut boards: Vec<Board> = vec![];
    for l in std::fs::read_to_string(&fens).unwrap().lines() {
        let l = l.trim();
        if l.is_empty() {
            continue;
        }
        match proj::build(l) {
            Ok(b) => boards.push(b),
            Err(e) => {
                eprintln!("{}", e);
                return 2;
            }
        }
    }
    for (ci, chunk) in boards.chunks(batch).enumerate() {
        // one RNG per chunk, so that a chunk can be re-executed on its own (replay)
        let cid = chunk_base + ci as u64;
        let mut rng = rand::rngs::StdRng::seed_from_u64(seed.wrapping_mul(1_000_003).wrapping_add(cid));
        let mut ev = Evaluator::new();
        writeln!(w, "{}", json!({"ev":"new","chunk":cid})).ok();
        // jobs: (position index, role) with role 0 = p, 1 = swap, 2 = mirror, 3 = p again
        let variants: Vec<[Board; 4]> = chunk.iter().map(|b| [*b, swap_side(b), mirror(b), *b]).collect();
        let mut jobs: Vec<(usize, usize)> = (0..chunk.len()).flat_map(|i| (0..4).map(move |r| (i, r))).collect();
        jobs.shuffle(&mut rng);
        let mut vals = vec![[0i64; 4]; chunk.len()];
        let mut panicked = false;
        for (i, r) in jobs {
            // now and then evaluate something unrelated in between (purity w.r.t. history)
            if rng.gen_bool(0.1) {
                let _ = catch_unwind(AssertUnwindSafe(|| ev.evaluate(&Board::default())));
            }
            match catch_unwind(AssertUnwindSafe(|| ev.evaluate(&variants[i][r]))) {
                Ok(v) => vals[i][r] = v as i64,
                Err(_) => {
                    writeln!(w, "{}", json!({"ev":"panic","where":"evaluate","pos":proj::project_struct(&variants[i][r])})).ok();
                    panicked = true;
                    break;
                }
            }
        }
        if panicked {
            continue;
        }
        for (i, v) in variants.iter().enumerate() {
            writeln!(w, "{}", json!({"ev":"quad","pos":proj::project_struct(&v[0]),"swap":proj::project_struct(&v[1]),
                "mirror":proj::project_struct(&v[2]),"v":vals[i][0],"vswap":vals[i][1],"vmirror":vals[i][2],"vagain":vals[i][3]})).ok();
        }
    }
    w.flush().ok();
    0
}
