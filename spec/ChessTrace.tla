----------------------------- MODULE ChessTrace -----------------------------
(***************************************************************************)
(* Trace specification for C01 / C02 / C17 (implementation -> spec).       *)
(* The harness plays games with the real move generator and make_move and  *)
(* logs, per ply, a "probe" event (generated move list, check flag,        *)
(* tactical list of the current position) and a "move" event (move played, *)
(* projected board afterwards).  Each event is matched with the action of  *)
(* Chess.tla it claims to be; acceptance is by POSTCONDITION on the        *)
(* matched length.  Games whose start position is not Valid are skipped    *)
(* (counted, no verdict): the listed properties quantify over valid        *)
(* positions only.                                                         *)
(***************************************************************************)
EXTENDS ChessRules, Json, IOUtils, TLCExt

Rec == ndJsonDeserialize(IOEnv.TRACE)
StuckAt == IF "STUCK" \in DOMAIN IOEnv THEN atoi(IOEnv.STUCK) ELSE 0

VARIABLES pos,    \* current abstract position
          l,      \* next trace line
          ok      \* the current game started from a Valid position
vars == <<pos, l, ok>>

TInit == l = 1 /\ pos = StartPos /\ ok = FALSE

IsEvent(e) == l <= Len(Rec) /\ Rec[l].ev = e /\ l' = l + 1

TReset == /\ IsEvent("reset")
          /\ pos' = FromJson(Rec[l].pos)
          /\ ok' = ((\A s \in Squares : pos'.bd[s] \in 0..12) /\ Valid(pos'))
          /\ PrintT(<<"GAME", l, ok'>>)

\* the named sub-checks of a probe event (also printed by the diagnostic run)
ProbeChecks(e, p) ==
  LET lm == Legal(p)
  IN [C01_moveset   |-> SeqToSet(e.legal) = {Uci(m) : m \in lm},
      C01_duplicate |-> Len(e.legal) = Cardinality(lm),
      C01_checkflag |-> e.chk = InCheck(p),
      C17_tactical  |-> InCheck(p) \/ (SeqToSet(e.q) = {Uci(m) : m \in Tactical(p)} /\ Len(e.q) = Cardinality(SeqToSet(e.q)))]

TProbe == /\ IsEvent("probe")
          /\ ok => LET c == ProbeChecks(Rec[l], pos) IN \A k \in DOMAIN c : c[k]
          /\ UNCHANGED <<pos, ok>>

MoveChecks(e, p) ==
  LET ms == {m \in Legal(p) : Uci(m) = e.uci}
  IN [C01_played_legal |-> ms # {},
      C02_successor    |-> \A m \in ms : Apply(p, m) = FromJson(e.pos),
      C02_consistent   |-> \A s \in Squares : FromJson(e.pos).bd[s] \in 0..12]

TMove == /\ IsEvent("move")
         /\ IF ok
            THEN /\ LET c == MoveChecks(Rec[l], pos) IN \A k \in DOMAIN c : c[k]
                 /\ \E m \in Legal(pos) : Uci(m) = Rec[l].uci /\ pos' = Apply(pos, m)   \* the action of Chess.tla
            ELSE pos' = pos
         /\ UNCHANGED ok

\* a quiescence node the REAL search entered (event sink of src/search.rs), with the move list it is about to
\* examine; the position comes with the reset event right before
QNodeChecks(e, p) ==
  LET want == IF InCheck(p) THEN Legal(p) ELSE Tactical(p)
  IN [C17_search_examines_exactly |-> SeqToSet(e.moves) = {Uci(m) : m \in want} /\ Len(e.moves) = Cardinality(want)]
TQNode == /\ IsEvent("qnode")
          /\ ok => LET c == QNodeChecks(Rec[l], pos) IN \A k \in DOMAIN c : c[k]
          /\ UNCHANGED <<pos, ok>>

\* a panic of the code under test is an event no action allows in a valid game
TPanic == IsEvent("panic") /\ ~ok /\ UNCHANGED <<pos, ok>>

TNext == TReset \/ TProbe \/ TMove \/ TQNode \/ TPanic
TSpec == TInit /\ [][TNext]_vars

\* every state of a validated game is a Valid position (the invariant of Chess.tla)
ValidInv == ok => Valid(pos)

\* diagnostic: when re-run with STUCK=<line>, print the sub-checks of that event
Diag == (l = StuckAt /\ l <= Len(Rec)) =>
          PrintT(<<"DIAG", l, Rec[l].ev, ok,
                   IF ~ok THEN <<>> ELSE
                   IF Rec[l].ev = "probe" THEN ProbeChecks(Rec[l], pos)
                   ELSE IF Rec[l].ev = "move" THEN MoveChecks(Rec[l], pos)
                   ELSE IF Rec[l].ev = "qnode" THEN QNodeChecks(Rec[l], pos)
                   ELSE <<"no action allows", Rec[l].ev>>,
                   ToFEN4(pos)>>)

Accepted == LET d == TLCGet("stats").diameter
            IN IF d = Len(Rec) + 1 THEN TRUE
               ELSE Print(<<"REJECTED", d>>, FALSE)
=============================================================================
