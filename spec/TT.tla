--------------------------------- MODULE TT ---------------------------------
(***************************************************************************)
(* The transposition table (src/transposition.rs): a map key -> entry with *)
(* depth-preferred replacement.  C15.                                      *)
(*                                                                         *)
(* An entry is [depth, data]; data stands for (eval, best move, bound),    *)
(* which store/retrieve treat as opaque.  The history variable `log` (the  *)
(* sequence of stores so far) is what the correctness statements refer to: *)
(*   Ref(k) = the LAST store under k among those of maximal depth          *)
(*            ("deepest wins, the latest among equally deep")              *)
(* and the invariant TableIsRef says the table always equals Ref - a       *)
(* history-level characterisation that does not mention the step rule.     *)
(*                                                                         *)
(* Evict is a NAMED DEVIATION: the pinned implementation (an unbounded     *)
(* HashMap) never takes it, but the property allows a lookup to return     *)
(* nothing, so trace validation composes it in front of a Retrieve that    *)
(* answered "nothing" instead of rejecting (counted and reported).         *)
(***************************************************************************)
EXTENDS TTCore, FiniteSets, TLC, Json

CONSTANTS MaxOps, EmitOn

StoreStep == Len(log) < MaxOps /\ \E k \in Keys, d \in Depths, x \in Data : Store(k, d, x)
RetrieveStep == Len(log) < MaxOps /\ \E k \in Keys : Retrieve(k)
Next == StoreStep \/ RetrieveStep
Spec == Init /\ [][Next]_vars

(* ---------- history-level reference ---------- *)
StoresOf(k) == {i \in 1..Len(log) : log[i].key = k}
MaxDepth(S) == CHOOSE d \in {log[i].depth : i \in S} : \A i \in S : log[i].depth <= d
Ref(k) == LET S == StoresOf(k)
          IN IF S = {} THEN None
             ELSE LET D == {i \in S : log[i].depth = MaxDepth(S)}
                      i == CHOOSE j \in D : \A j2 \in D : j2 <= j
                  IN Entry(log[i].depth, log[i].data)

(* ---------- properties (C15) ---------- *)
TableIsRef == \A k \in Keys : tt[k] = Ref(k)
\* a lookup returns nothing or something that was stored under exactly that key
OnlyStored == \A k \in Keys : tt[k] # None =>
                \E i \in StoresOf(k) : tt[k] = Entry(log[i].depth, log[i].data)
LookupFaithful == ret.key \in Keys => (ret.val = None \/ \E i \in StoresOf(ret.key) : ret.val = Entry(log[i].depth, log[i].data))
\* a shallower store never replaces a deeper entry; an equal or deeper one does
DeepestWins == [][\A k \in Keys, d \in Depths, x \in Data :
                   Store(k, d, x) => IF tt[k] # None /\ d < tt[k].depth THEN tt'[k] = tt[k] ELSE tt'[k] = Entry(d, x)]_vars
\* a store under one key leaves every other key alone
NoCrossKey == [][\A k \in Keys, d \in Depths, x \in Data :
                   Store(k, d, x) => \A k2 \in Keys \ {k} : tt'[k2] = tt[k2]]_vars

Emit == (EmitOn /\ Len(log) > 0) => PrintT(<<"@@", ToJson([log |-> log, tt |-> tt])>>)
EmitInv == Emit
View == <<tt, log>>
=============================================================================
