--------------------------------- MODULE Eval ---------------------------------
(***************************************************************************)
(* Required relations of the static evaluation (src/eval.rs), C14.  The    *)
(* numeric content of the score is NOT specified (not a listed property);  *)
(* values come from the implementation, the relations from here.           *)
(***************************************************************************)
EXTENDS ChessRules

Window == 32767                 \* the search window (INFINITY in src/search.rs)
EvalBound == Window \div 2      \* "well inside the search window"

Antisym(v, vswap) == vswap = -v            \* only the side to move swapped: exact negative
MirrorInv(v, vmirror) == vmirror = v       \* board mirrored, colours exchanged: unchanged
Bounded(v) == v <= EvalBound /\ -v <= EvalBound
Pure(v, vagain) == vagain = v              \* same position, any evaluation order: same value
=============================================================================
