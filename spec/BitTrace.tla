------------------------------ MODULE BitTrace ------------------------------
(***************************************************************************)
(* Trace validation of the real bitboard / square primitives               *)
(* (src/bitboard.rs, src/square.rs, Move::to_algebraic) against            *)
(* Bitboard.tla.  The harness applies the primitives to single squares     *)
(* (every square x every amount -20..20), to random sparse and dense sets  *)
(* and to the edge files / ranks, and logs every answer as a list of       *)
(* squares.  Mismatches are SPEC-DRIFT (not a listed property; C01 / C10   *)
(* rest on this layer and decide).                                         *)
(***************************************************************************)
EXTENDS Bitboard, Json, IOUtils, TLC

ASSUME BitSane
Rec == ndJsonDeserialize(IOEnv.TRACE)
StuckAt == IF "STUCK" \in DOMAIN IOEnv THEN atoi(IOEnv.STUCK) ELSE 0
VARIABLE l
E == Rec[l]
Is(ev) == l <= Len(Rec) /\ E.ev = ev /\ l' = l + 1
SeqSet(q) == {q[i] : i \in 1..Len(q)}
IsSetOf(q, S) == SeqSet(q) = S /\ Len(q) = Cardinality(S)

ShiftChecks(e) == LET S == SeqSet(e.bb) IN
  [D_shift |-> IsSetOf(e.out, Shift(S, e.d)), D_sane |-> ShiftSane(S, e.d)]
IterChecks(e) == [D_iter_ascending_each_once |-> e.out = Ascending(SeqSet(e.bb))]
BitChecks(e) == LET S == SeqSet(e.bb) IN
  [D_set |-> IsSetOf(e.set, SetBit(S, e.s)), D_remove |-> IsSetOf(e.rm, RemoveBit(S, e.s)),
   D_single |-> e.one = <<e.s>>]
EdgeChecks(e) == [D_edge_mask |-> IsSetOf(e.out, EdgeMask(e.rank, e.file)),
                  D_rank_file_bb |-> e.one = <<e.rank * 8 + e.file>>]
SquareChecks(e) ==
  [D_algebraic |-> e.txt = Alg(e.s), D_back |-> e.back = e.s, D_file |-> e.file = FileOf(e.s),
   D_rank |-> e.rank = RankOf(e.s), D_rank_file |-> e.rf = <<RankOf(e.s), FileOf(e.s)>>,
   D_compose |-> e.sq = e.s]
\* Move::to_algebraic: from, to, and the promotion letter only for promotions (to a piece other than pawn / king)
Letter(pc) == CASE pc = "N" -> <<"n">> [] pc = "B" -> <<"b">> [] pc = "R" -> <<"r">> [] pc = "Q" -> <<"q">> [] OTHER -> <<>>
MoveChecks(e) == [D_move_text |-> e.txt = Alg(e.from) \o Alg(e.to) \o (IF e.promo THEN Letter(e.pc) ELSE <<>>)]
ConstChecks(e) ==
  [D_ranks |-> \A r \in 0..7 : IsSetOf(e.ranks[r + 1], RankSet(r)),
   D_files |-> \A f \in 0..7 : IsSetOf(e.files[f + 1], FileSet(f)),
   D_castle_paths |-> /\ IsSetOf(e.wk, {5, 6}) /\ IsSetOf(e.wq, {1, 2, 3})
                      /\ IsSetOf(e.bk, {61, 62}) /\ IsSetOf(e.bq, {57, 58, 59})]

ChecksOf(e) == CASE e.ev = "shift" -> ShiftChecks(e) [] e.ev = "iter" -> IterChecks(e) [] e.ev = "bit" -> BitChecks(e)
                 [] e.ev = "edge" -> EdgeChecks(e) [] e.ev = "square" -> SquareChecks(e) [] e.ev = "move" -> MoveChecks(e)
                 [] e.ev = "const" -> ConstChecks(e)
AllTrue(c) == \A k \in DOMAIN c : c[k]
Kinds == {"shift", "iter", "bit", "edge", "square", "move", "const"}
TEvent == \E k \in Kinds : Is(k) /\ AllTrue(ChecksOf(E))
TSpec == l = 1 /\ [][TEvent]_l

Diag == (StuckAt > 0 /\ l = StuckAt /\ l <= Len(Rec)) =>
          PrintT(<<"DIAG", l, E, IF E.ev \in Kinds THEN ChecksOf(E) ELSE <<"no action allows", E.ev>> >>)
Accepted == LET d == TLCGet("stats").diameter
            IN IF d = Len(Rec) + 1 THEN TRUE ELSE Print(<<"REJECTED", d>>, FALSE)
=============================================================================
