------------------------------- MODULE Zobrist -------------------------------
(***************************************************************************)
(* Position hashing (src/zobrist.rs), C11.                                 *)
(*                                                                         *)
(* A position is a set of FEATURES (piece-on-square, white-to-move, each   *)
(* castling right, e.p. square); the hash is the XOR of one 64-bit key per *)
(* feature.  64-bit values are four 16-bit limbs (TLC integers are 32-bit).*)
(* The move counters are not features: the hash cannot depend on them.     *)
(***************************************************************************)
EXTENDS ChessRules, Bitwise, FiniteSetsExt

ZeroH == <<0, 0, 0, 0>>
XorH(a, b) == <<a[1] ^^ b[1], a[2] ^^ b[2], a[3] ^^ b[3], a[4] ^^ b[4]>>

Features(pos) ==
  {<<"pc", pos.bd[s], s>> : s \in {u \in Squares : pos.bd[u] # 0}}
  \cup (IF pos.stm = "w" THEN {<<"stm", 0, 0>>} ELSE {})
  \cup {<<"cr", r, 0>> : r \in pos.cr}
  \cup (IF pos.ep # -1 THEN {<<"ep", pos.ep, 0>>} ELSE {})

RightIdx(r) == CASE r = "K" -> 1 [] r = "Q" -> 2 [] r = "k" -> 3 [] r = "q" -> 4
\* keys: [h0: limbs (hash of the empty board, black to move, no rights, no e.p.),
\*        pc: 12 x 64 x limbs, stm: limbs, cr: 4 x limbs, ep: 64 x limbs]  (sequences, 1-based)
KeyOf(keys, f) == CASE f[1] = "pc" -> keys.pc[f[2]][f[3] + 1]
                    [] f[1] = "stm" -> keys.stm
                    [] f[1] = "cr" -> keys.cr[RightIdx(f[2])]
                    [] f[1] = "ep" -> keys.ep[f[2] + 1]
HashOf(keys, pos) == FoldSet(LAMBDA f, acc : XorH(KeyOf(keys, f), acc), keys.h0, Features(pos))

(* single-component perturbations of a position (C11: "changes whenever any single piece, the side
   to move, any one castling right or the en-passant square changes") *)
SetSquare(pos, s, c) == [pos EXCEPT !.bd[s] = c]
FlipSide(pos) == [pos EXCEPT !.stm = Opp(pos.stm)]
ToggleRight(pos, r) == [pos EXCEPT !.cr = IF r \in pos.cr THEN pos.cr \ {r} ELSE pos.cr \cup {r}]
SetEp(pos, e) == [pos EXCEPT !.ep = e]

\* the feature map is injective: equal feature sets, equal positions (checked on explored positions
\* against all their single-component perturbations)
FeaturesSeparate(pos) ==
  /\ \A s \in Squares, c \in 0..12 : c # pos.bd[s] => Features(SetSquare(pos, s, c)) # Features(pos)
  /\ Features(FlipSide(pos)) # Features(pos)
  /\ \A r \in Rights : Features(ToggleRight(pos, r)) # Features(pos)
  /\ \A e \in (Squares \cup {-1}) \ {pos.ep} : Features(SetEp(pos, e)) # Features(pos)

(* key-level conditions that give single-component sensitivity for EVERY position under one key
   draw, once the hash is known to be the XOR of the feature keys *)
EpRank3 == {Sq(f, 2) : f \in 0..7}
EpRank6 == {Sq(f, 5) : f \in 0..7}
KeysSeparate(keys) ==
  [C11_square_content |-> \A s \in Squares : \A c \in 1..12 :
                            /\ keys.pc[c][s + 1] # ZeroH
                            /\ \A c2 \in 1..12 : c2 # c => keys.pc[c][s + 1] # keys.pc[c2][s + 1],
   C11_side_key       |-> keys.stm # ZeroH,
   C11_right_keys     |-> \A i \in 1..4 : keys.cr[i] # ZeroH,
   C11_ep_keys        |-> \A rk \in {EpRank3, EpRank6} : \A e \in rk :
                            /\ keys.ep[e + 1] # ZeroH
                            /\ \A e2 \in rk : e2 # e => keys.ep[e + 1] # keys.ep[e2 + 1],
   \* two-feature differences: no two features that can differ between valid positions share a key
   \* (e.p. squares of different ranks never coexist with the same side to move, so they may)
   C11_keys_pairwise_distinct |-> \A rk \in {EpRank3, EpRank6} :
        Cardinality({keys.pc[c][s + 1] : c \in 1..12, s \in Squares} \cup {keys.stm}
                    \cup {keys.cr[i] : i \in 1..4} \cup {keys.ep[e + 1] : e \in rk}) = 768 + 1 + 4 + 8]
=============================================================================
