----------------------------- MODULE RandGraph -----------------------------
(***************************************************************************)
(* A family of pseudo-random abstract game graphs for Search.tla, as a     *)
(* function of the integer GSEED (environment).  Evaluated ONCE per seed   *)
(* (this module, one state) and handed to SearchRand.tla as JSON - TLC     *)
(* re-derives substituted constant operators at every use, which made the  *)
(* in-place definition 50 times slower than a literal graph.               *)
(*                                                                         *)
(* Shape of the family (what the invariants of Search.tla need):           *)
(*  - levelled DAG: every edge goes from level k to level k+1, so a        *)
(*    position is met at ONE remaining depth per iteration (the property   *)
(*    excludes answers reused from a deeper entry) and positions alternate *)
(*    the side to move; transpositions inside a level are frequent;        *)
(*  - every node below the root has a parent (no dead state-space);        *)
(*  - leaves are mates (Chk), stalemates or plain positions at random;     *)
(*    inner nodes may be "in check" (quiescence then follows every move);  *)
(*  - a random subset of the moves is tactical (followed by quiescence);   *)
(*  - for a quarter of the seeds a game history over the graph's positions *)
(*    (repetition rule: some successors already occurred once or twice).   *)
(***************************************************************************)
EXTENDS Integers, Sequences, FiniteSets, TLC, IOUtils, Json

Rev(s) == [i \in 1..Len(s) |-> s[Len(s) + 1 - i]]

Seed == atoi(IOEnv.GSEED)

\* a small multiplicative hash (all intermediate values stay below 2^31)
Md(a, b) == a % b
Mix(x) == Md(Md(x, 65521) * 16807 + 12345, 65521)
Rnd(a, b) == Md(Mix(Mix(Mix(Mix(Seed + 1) + 31 * a) + 17 * b + 1) + a * b) \div 3, 10007)

\* level sizes: root, then 2..3, 2..3, 1..3, 0..2 nodes
Sz == <<1, 2 + Md(Rnd(1, 1), 2), 2 + Md(Rnd(1, 2), 2), 1 + Md(Rnd(1, 3), 3), Md(Rnd(1, 4), 3)>>
RECURSIVE Upto(_)
Upto(k) == IF k = 0 THEN 0 ELSE Upto(k - 1) + Sz[k]       \* number of nodes in levels 1..k
RN == Upto(5)
Level(q) == CHOOSE k \in 1..5 : Upto(k - 1) < q /\ q <= Upto(k)
LevelNodes(k) == (Upto(k - 1) + 1)..Upto(k)

RECURSIVE SeqOfSet(_)
SeqOfSet(S) == IF S = {} THEN <<>> ELSE LET m == CHOOSE x \in S : \A y \in S : x <= y IN <<m>> \o SeqOfSet(S \ {m})

\* every third seed is "mate-rich": some positions of levels 2 and 3 have no move at all (mate or stalemate one
\* or two plies below the root - the mate-in-one and the defensive half of C08), never the first one of a level
MateRich == Md(Seed, 3) = 0
Barren(q) == MateRich /\ Level(q) \in {2, 3} /\ q # Upto(Level(q) - 1) + 1 /\ Md(Rnd(60, q), 100) < (IF Level(q) = 2 THEN 20 ELSE 60)
\* primary parent of q (level k > 1): a node of level k-1 that has moves
Parent(q) == LET k == Level(q)
                 c == SeqOfSet({x \in LevelNodes(k - 1) : ~Barren(x)})
             IN c[1 + Md(Rnd(2, q), Len(c))]
IsEdge(pp, q) == Level(q) = Level(pp) + 1 /\ ~Barren(pp) /\ (Parent(q) = pp \/ Md(Rnd(3 + pp, q), 100) < 35)

RMoves == [pp \in 1..RN |->
             LET kids == {q \in 1..RN : q > pp /\ Level(pp) < 5 /\ Level(q) = Level(pp) + 1 /\ IsEdge(pp, q)}
                 s == SeqOfSet(kids)
             IN IF Md(Rnd(20, pp), 2) = 0 THEN s ELSE Rev(s)]
RTact == [pp \in 1..RN |-> {j \in 1..Len(RMoves[pp]) : Md(Rnd(30 + pp, j), 100) < 45}]
RChk == [pp \in 1..RN |-> IF RMoves[pp] = <<>> THEN Md(Rnd(40, pp), 100) < (IF MateRich THEN 70 ELSE 50) ELSE Md(Rnd(40, pp), 100) < 15]
\* game history (before the root): up to four earlier positions taken from levels 2..3 - so that some
\* successors of the root / of its children have occurred once or twice already
RHist == IF Md(Seed, 4) # 3 THEN <<>>
         ELSE LET pool == SeqOfSet(LevelNodes(2) \cup LevelNodes(3))
                  n == Len(pool)
              IN [k \in 1..(2 + Md(Rnd(50, 0), 3)) |-> pool[1 + Md(Rnd(51, k), IF Md(Rnd(52, 0), 2) = 0 THEN 2 ELSE n)]]

\* (TLCEval: TLC keeps functions as unevaluated lambdas otherwise and would re-derive the graph at every use)
RGr == [n |-> RN, moves |-> [q \in 1..RN |-> RMoves[q]], tact |-> [q \in 1..RN |-> SeqOfSet(RTact[q])],
        chk |-> [q \in 1..RN |-> RChk[q]], hist |-> RHist, seed |-> Seed]

VARIABLE x
Init == x = 0
Next == x' = x
ASSUME PrintT(<<"@@", ToJson(RGr)>>)
=============================================================================
