----------------------------- MODULE SearchRand -----------------------------
(***************************************************************************)
(* Search.tla on a FAMILY of pseudo-random abstract game graphs instead of *)
(* the four hand-written ones.  RandGraph.tla defines the family as a      *)
(* function of a seed; one TLC run here = one graph, explored exhaustively *)
(* (every static valuation, both child orders, every expiry point of the   *)
(* clock / the given budget); the runner sweeps seeds.                     *)
(***************************************************************************)
EXTENDS Search, IOUtils, Json

JG == JsonDeserialize(IOEnv.GRAPH)
RD == atoi(IOEnv.GD)
RAborts == atoi(IOEnv.GABORTS)
RBudget == atoi(IOEnv.GBUDGET)
SeqSet(s) == {s[k] : k \in 1..Len(s)}
RGr == [N |-> JG.n, Moves |-> JG.moves, Tact |-> [q \in 1..JG.n |-> SeqSet(JG.tact[q])], Chk |-> JG.chk, Hist |-> JG.hist]
=============================================================================
