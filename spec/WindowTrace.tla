----------------------------- MODULE WindowTrace -----------------------------
(***************************************************************************)
(* C05 on arbitrary positions: the alpha-beta contract.  "Cut-offs are     *)
(* optimisations only" means that no search window may change the value:   *)
(* with v the answer of a fresh engine for the full window and r the       *)
(* answer for the root window (a, b),                                      *)
(*      a < v < b  =>  r = v                                               *)
(*      v <= a     =>  r <= a        (a true upper bound is reported)      *)
(*      v >= b     =>  r >= b        (a true lower bound is reported)      *)
(* This is the contract Search.tla's negamax satisfies (it is what TTSound *)
(* says about every stored bound); here it is observed on the real         *)
(* negamax at the root, for positions of every phase of the game - no game *)
(* graph is needed, so positions whose quiescence tree is unbounded are in *)
(* scope.                                                                  *)
(***************************************************************************)
EXTENDS ChessRules, Json, IOUtils

Rec == ndJsonDeserialize(IOEnv.TRACE)
StuckAt == IF "STUCK" \in DOMAIN IOEnv THEN atoi(IOEnv.STUCK) ELSE 0

Contract(v, a, b, r) == /\ (a < v /\ v < b) => r = v
                        /\ v <= a => r <= a
                        /\ v >= b => r >= b
PanicCode == 99999999
Bad(e) == {i \in 1..Len(e.probes) : e.probes[i][3] = PanicCode \/ ~Contract(e.v, e.probes[i][1], e.probes[i][2], e.probes[i][3])}
Checks(e) == IF "panic" \in DOMAIN e THEN [C05_search_survives |-> FALSE]
             ELSE [C05_no_window_changes_the_value |-> Bad(e) = {}]

VARIABLES l, skipped
vars == <<l, skipped>>
TInit == l = 1 /\ skipped = 0
IsEvent(x) == l <= Len(Rec) /\ Rec[l].ev = x /\ l' = l + 1
TWindow == /\ IsEvent("window")
           /\ IF Valid(FromJson(Rec[l].pos))
              THEN (LET c == Checks(Rec[l]) IN \A k \in DOMAIN c : c[k]) /\ UNCHANGED skipped
              ELSE skipped' = skipped + 1
TSpec == TInit /\ [][TWindow]_vars

Diag == (l = StuckAt /\ l <= Len(Rec)) =>
          PrintT(<<"DIAG", l, Rec[l].fen, "depth", Rec[l].d, Checks(Rec[l]),
                   IF "v" \in DOMAIN Rec[l] THEN <<"full-window value", Rec[l].v, "violating probes [a, b, r]", {Rec[l].probes[i] : i \in Bad(Rec[l])}>> ELSE <<>> >>)
Skipped == (l = Len(Rec) + 1) => PrintT(<<"SKIPPED-NOT-VALID", skipped>>)
Accepted == LET d == TLCGet("stats").diameter
            IN IF d = Len(Rec) + 1 THEN TRUE ELSE Print(<<"REJECTED", d>>, FALSE)
=============================================================================
