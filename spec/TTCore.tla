------------------------------- MODULE TTCore -------------------------------
(***************************************************************************)
(* State and actions of the transposition table (src/transposition.rs),    *)
(* shared by TT.tla (bounded model checking, replay, trace validation) and *)
(* proofs/TTProof.tla (TLAPS proof for unbounded histories and arbitrary   *)
(* key / depth / data sets).                                               *)
(***************************************************************************)
EXTENDS Integers, Sequences

CONSTANTS Keys, Depths, Data

None == [depth |-> -1, data |-> "none"]
Entry(d, x) == [depth |-> d, data |-> x]

VARIABLES tt,    \* Keys -> entry or None
          log,   \* history: sequence of [key, depth, data] stores
          ret    \* result of the last lookup: [key, val]
vars == <<tt, log, ret>>

Init == /\ tt = [k \in Keys |-> None]
        /\ log = <<>>
        /\ ret = [key |-> "none", val |-> None]

\* src/transposition.rs:15  store(): insert when absent or when the old depth <= new depth
StoreRule(t, k, d, x) == IF t[k] = None \/ t[k].depth <= d THEN [t EXCEPT ![k] = Entry(d, x)] ELSE t

Store(k, d, x) == /\ tt' = StoreRule(tt, k, d, x)
                  /\ log' = Append(log, [key |-> k, depth |-> d, data |-> x])
                  /\ UNCHANGED ret

\* src/transposition.rs:33  retrieve(): the entry of exactly that key, or nothing
Retrieve(k) == /\ ret' = [key |-> k, val |-> tt[k]]
               /\ UNCHANGED <<tt, log>>

\* deviation (not taken by the pinned code): an entry is dropped
Evict(k) == /\ tt[k] # None
            /\ tt' = [tt EXCEPT ![k] = None]
            /\ UNCHANGED <<log, ret>>


\* the unbounded next-state relation (TT.tla bounds the history length for TLC)
StoreAny == \E k \in Keys, d \in Depths, x \in Data : Store(k, d, x)
RetrieveAny == \E k \in Keys : Retrieve(k)
NextU == StoreAny \/ RetrieveAny
SpecU == Init /\ [][NextU]_vars

(* ---------- the inductive invariant proved in proofs/TTProof.tla (and checked by TLC in TT.cfg) ---------- *)
TypeOK == /\ tt \in [Keys -> [depth : Depths \cup {-1}, data : Data \cup {"none"}]]
          /\ log \in Seq([key : Keys, depth : Depths, data : Data])
\* every entry is one of the stores under exactly its key, and no store under that key was deeper;
\* a key without entry was never stored
EntryOK(k) == IF tt[k] = None THEN \A i \in 1..Len(log) : log[i].key # k
              ELSE /\ \E i \in 1..Len(log) : log[i].key = k /\ tt[k] = Entry(log[i].depth, log[i].data)
                   /\ \A i \in 1..Len(log) : log[i].key = k => log[i].depth <= tt[k].depth
IndInv == TypeOK /\ \A k \in Keys : EntryOK(k)
=============================================================================
