------------------------------ MODULE Bitboard ------------------------------
(***************************************************************************)
(* The primitive layer under the move generator and the tables             *)
(* (src/bitboard.rs, src/square.rs): a bitboard is a SET of squares        *)
(* 0..63 (a1 = 0, h1 = 7, a8 = 56).  `shift` translates the set by one of  *)
(* the sixteen board directions (king / pawn / knight steps) WITHOUT       *)
(* wrapping round the board edge; for any other amount it is the plain     *)
(* shift of the 64-bit word (what the engine does - a named deviation from *)
(* "translation on the board", used by nothing but double pawn pushes,     *)
(* amount +-16, where both agree).  The iterator yields the squares in     *)
(* ascending order, each once.  Not a listed property on its own: C01 and  *)
(* C10 rest on it; differences are SPEC-DRIFT in C10's evidence.           *)
(***************************************************************************)
EXTENDS Integers, Sequences, FiniteSets

Sq == 0..63
FileOf(s) == s % 8
RankOf(s) == s \div 8

\* the sixteen named amounts of BitboardOperations::shift and their (file, rank) steps
Step == [d \in {8, -8, 1, -1, 9, 7, -7, -9, 17, 15, -15, -17, 10, 6, -6, -10} |->
           CASE d = 8 -> <<0, 1>> [] d = -8 -> <<0, -1>> [] d = 1 -> <<1, 0>> [] d = -1 -> <<-1, 0>>
             [] d = 9 -> <<1, 1>> [] d = 7 -> <<-1, 1>> [] d = -7 -> <<1, -1>> [] d = -9 -> <<-1, -1>>
             [] d = 17 -> <<1, 2>> [] d = 15 -> <<-1, 2>> [] d = -15 -> <<1, -2>> [] d = -17 -> <<-1, -2>>
             [] d = 10 -> <<2, 1>> [] d = 6 -> <<-2, 1>> [] d = -6 -> <<2, -1>> [] d = -10 -> <<-2, -1>>]

OnBoard(f, r) == f \in 0..7 /\ r \in 0..7

\* translation on the board: squares stepping over an edge fall off
Translate(S, df, dr) == {(RankOf(s) + dr) * 8 + FileOf(s) + df : s \in {x \in S : OnBoard(FileOf(x) + df, RankOf(x) + dr)}}
\* shift of the 64-bit word: only the two ends of the word cut
WordShift(S, d) == {s + d : s \in {x \in S : x + d \in Sq}}

Shift(S, d) == IF d \in DOMAIN Step THEN Translate(S, Step[d][1], Step[d][2]) ELSE WordShift(S, d)

\* sanity (checked by TLC on the trace inputs): a board translation never creates squares and is
\* the word shift restricted to the squares that do not cross a vertical edge
ShiftSane(S, d) == /\ Cardinality(Shift(S, d)) <= Cardinality(S)
                   /\ d \in DOMAIN Step => Shift(S, d) \subseteq WordShift(S, d)

\* internal consistency of this module (an ASSUME of BitTrace, evaluated once by TLC): every board translation is undone by
\* the opposite one wherever it is defined, the king / knight steps from a square are exactly the squares at the right distance
Dist(a, b) == LET df == FileOf(a) - FileOf(b)  dr == RankOf(a) - RankOf(b)
              IN <<IF df < 0 THEN -df ELSE df, IF dr < 0 THEN -dr ELSE dr>>
KingSteps == {8, -8, 1, -1, 9, 7, -7, -9}
KnightSteps == {17, 15, -15, -17, 10, 6, -6, -10}
BitSane ==
  /\ \A s \in Sq, d \in DOMAIN Step : LET t == Shift({s}, d) IN t = {} \/ (Cardinality(t) = 1 /\ Shift(t, -d) = {s})
  /\ \A s \in Sq : UNION {Shift({s}, d) : d \in KingSteps} = {t \in Sq : t # s /\ Dist(s, t)[1] <= 1 /\ Dist(s, t)[2] <= 1}
  /\ \A s \in Sq : UNION {Shift({s}, d) : d \in KnightSteps} = {t \in Sq : Dist(s, t) \in {<<1, 2>>, <<2, 1>>}}

RECURSIVE Ascending(_)
Ascending(S) == IF S = {} THEN <<>>
                ELSE LET m == CHOOSE x \in S : \A y \in S : x <= y IN <<m>> \o Ascending(S \ {m})

SetBit(S, s) == S \cup {s}
RemoveBit(S, s) == S \ {s}

\* rank_file_to_edge_mask(rank, file): the edges a slider standing there does NOT look along to the end
\* (its own edge lines are kept): used for the relevant-occupancy masks of the magic tables
RankSet(r) == {s \in Sq : RankOf(s) = r}
FileSet(f) == {s \in Sq : FileOf(s) = f}
EdgeMask(rank, file) ==
  (CASE rank = 0 -> RankSet(7) [] rank = 7 -> RankSet(0) [] OTHER -> RankSet(0) \cup RankSet(7))
  \cup (CASE file = 0 -> FileSet(7) [] file = 7 -> FileSet(0) [] OTHER -> FileSet(0) \cup FileSet(7))

Files == <<"a", "b", "c", "d", "e", "f", "g", "h">>
Ranks == <<"1", "2", "3", "4", "5", "6", "7", "8">>
Alg(s) == <<Files[FileOf(s) + 1], Ranks[RankOf(s) + 1]>>      \* two one-character strings
=============================================================================
