------------------------------ MODULE TimeTrace ------------------------------
(***************************************************************************)
(* C12, implementation -> specification: for every go line printed by      *)
(* TimeCtl.tla, the (depth, budget) the real go parser hands to the search *)
(* (hook verif_go_budget), with the side to move set through the real      *)
(* position command.                                                       *)
(***************************************************************************)
EXTENDS Integers, Sequences, FiniteSets, TLC, Json, IOUtils

Rec == ndJsonDeserialize(IOEnv.TRACE)
StuckAt == IF "STUCK" \in DOMAIN IOEnv THEN atoi(IOEnv.STUCK) ELSE 0

FitsClock(own, budget) == budget >= 0 /\ budget <= own /\ (own > 0 => budget < own)

\* the allocation as transcribed from the code (TimeCtl.tla ModelBudget); a mismatch is SPEC-DRIFT, no verdict
Min2(a, b) == IF a <= b THEN a ELSE b
Max2(a, b) == IF a >= b THEN a ELSE b
ModelBudget(own, inc) == Min2((Max2(own - 5000, 0) \div 25) + inc, own \div 2)

VARIABLES l, stm, memo     \* memo: set of [stm, own, inc, mtg, budget] observations
vars == <<l, stm, memo>>
TInit == l = 1 /\ stm = "w" /\ memo = {}
IsEvent(e) == l <= Len(Rec) /\ Rec[l].ev = e /\ l' = l + 1
Has(e, f) == f \in DOMAIN e

SideChecks(e) == [H_side_set |-> e.stm = e.board_stm]
TSide == IsEvent("side") /\ (\A k \in DOMAIN SideChecks(Rec[l]) : SideChecks(Rec[l])[k]) /\ stm' = Rec[l].stm /\ UNCHANGED memo

Own(e) == IF e.stm = "w" THEN e.go.wtime ELSE e.go.btime
Inc(e) == IF e.stm = "w" THEN e.go.winc ELSE e.go.binc
Mtg(e) == IF "mtg" \in DOMAIN e.go THEN e.go.mtg ELSE 0
Obs(e) == [stm |-> e.stm, own |-> Own(e), inc |-> Inc(e), mtg |-> Mtg(e), budget |-> e.budget]
GoChecks(e) ==
  IF Has(e, "panic") \/ ~Has(e, "budget") THEN [C12_parser_survives_and_reaches_the_search |-> FALSE]
  ELSE [H_side |-> e.stm = stm,
        \* (a negative clock is an expired clock: the most lenient reading)
        C12_fits_own_clock |-> FitsClock(IF Own(e) < 0 THEN 0 ELSE Own(e), e.budget),
        C12_own_clock_only |-> \A x \in memo : (x.stm = e.stm /\ x.own = Own(e) /\ x.inc = Inc(e) /\ x.mtg = Mtg(e)) => x.budget = e.budget]
TGo == /\ IsEvent("go")
       /\ \A k \in DOMAIN GoChecks(Rec[l]) : GoChecks(Rec[l])[k]
       /\ memo' = memo \cup {Obs(Rec[l])}
       /\ (IF Rec[l].budget = ModelBudget(Max2(Own(Rec[l]), 0), Max2(Inc(Rec[l]), 0)) THEN TRUE ELSE PrintT(<<"DRIFT", l, Rec[l].text, Rec[l].budget>>))
       /\ UNCHANGED stm

TNext == TSide \/ TGo
TSpec == TInit /\ [][TNext]_vars

Diag == (l = StuckAt /\ l <= Len(Rec)) =>
          PrintT(<<"DIAG", l, Rec[l].ev,
                   CASE Rec[l].ev = "go" -> GoChecks(Rec[l]) [] Rec[l].ev = "side" -> SideChecks(Rec[l])
                     [] OTHER -> <<"no action allows", Rec[l].ev>>,
                   IF Rec[l].ev = "go" THEN <<Rec[l].text, Rec[l].stm, IF Has(Rec[l], "budget") THEN Rec[l].budget ELSE -2>> ELSE <<>> >>)
MemoSize == (l = Len(Rec) + 1) => PrintT(<<"MEMO", Cardinality(memo)>>)
Accepted == LET d == TLCGet("stats").diameter
            IN IF d = Len(Rec) + 1 THEN TRUE ELSE Print(<<"REJECTED", d>>, FALSE)
=============================================================================
