------------------------------- MODULE Search -------------------------------
(***************************************************************************)
(* The search (src/search.rs) as a PlusCal algorithm over ABSTRACT finite  *)
(* game graphs: find_best_move (iterative deepening), negamax (fail-soft   *)
(* alpha-beta, transposition-table probe and store, repetition rule at     *)
(* ply > 0) and search_until_quiet (fail-hard, stand-pat, tactical moves,  *)
(* all evasions in check, no depth limit), one label per critical section  *)
(* of the code.  A separate `clock` process may expire at ANY atomic step  *)
(* (the wall-clock deadline), or - ~ClockMode - the deadline is expressed *)
(* in nodes exactly like the verification hook in src/timer.rs.            *)
(*                                                                         *)
(* TLC checks, for every leaf valuation, every choice of child order and   *)
(* every expiry point in the configured graphs:                            *)
(*   ResultIsMinimax        C05 / C06 / C09  a completed search reports    *)
(*                          the minimax value and a move attaining it      *)
(*   TTSound                C05 / C06  every cached entry is a true claim  *)
(*   NothingLeftBehind      C06  the game history is as before             *)
(*   Prompt                 C07  at most `PromptBound` node entries after  *)
(*                          the deadline                                   *)
(*   AlwaysAMove            C03  a move is returned whenever one exists    *)
(*   MateInOnePlayed, NoAvoidableMateAllowed   C08                         *)
(*                                                                         *)
(* Deliberate deviations of the implementation, modelled as such:          *)
(*  - stand-pat applies even in check; quiescence has no depth limit;      *)
(*  - at depth 0 quiescence runs BEFORE the no-legal-move test: stalemate  *)
(*    at the horizon is scored by stand-pat; negamax counts such a node    *)
(*    twice;                                                               *)
(*  - mate scores lie outside the +-INF window and are compared only as    *)
(*    won / lost (Cls);                                                    *)
(*  - the root may be answered from the table;                             *)
(*  - StoreOnAbort = TRUE is the behaviour BEFORE the repair of C06 (node  *)
(*    abandoned at the deadline still stored): TLC then finds TTSound and  *)
(*    ResultIsMinimax violated - kept as a regression model.               *)
(***************************************************************************)
EXTENDS Integers, Sequences, FiniteSets, TLC

CONSTANTS StoreOnAbort,   \* TRUE = behaviour of the code before the C06 repair
          D,              \* depth of the iterative deepening
          Aborts,         \* number of interruptible searches before the final complete one (0..2)
          G,              \* which game graph
          ClockMode,      \* TRUE: free-running clock process; FALSE: deadline = Budget nodes (hook semantics)
          Budget,         \* the node budget of the interruptible searches when ~ClockMode
          PollMode,       \* ~ClockMode only: TRUE = Budget counts evaluations of should_stop() (the Budget-th is the
                          \* first to answer true), FALSE = Budget counts nodes (both are hooks in src/timer.rs)
          Orders,         \* set of child orders explored: subset of {"fwd", "rev"}
          Vals            \* static evaluations a position can have (all assignments are explored)

INF == 9
ValsSmall == {-1, 1}          \* (cfg files cannot write negative numbers: Vals <- ValsSmall)
ValsWide == {-2, 0, 1}
MATE == 1000
NoMove == 0

(* ---------------------------------------------------------------- game graphs
   Moves[p] : successor positions in generation order; Tact[p] : indices of tactical moves;
   Chk[p] : side to move in check.  No moves: mate if Chk, else stalemate.
   Hist : the game history before the root (positions), for the repetition rule. *)
Graphs ==
  [ g1 |-> [ N |-> 9,    \* a DAG with a transposition (5), tactical moves below the horizon, a mate (9)
             Moves |-> [p \in 1..9 |-> CASE p = 1 -> <<2, 3>> [] p = 2 -> <<4, 5>> [] p = 3 -> <<5, 6>>
                                         [] p = 4 -> <<7>> [] p = 5 -> <<8>> [] p = 6 -> <<9>> [] OTHER -> <<>>],
             Tact  |-> [p \in 1..9 |-> CASE p = 4 -> {1} [] p = 5 -> {1} [] OTHER -> {}],
             Chk   |-> [p \in 1..9 |-> p = 9],
             Hist  |-> <<>> ],
    g2 |-> [ N |-> 8,    \* the root has a mate in one (1 -> 3, 3 is mated); 8 is a deeper mate
             Moves |-> [p \in 1..8 |-> CASE p = 1 -> <<2, 3, 4>> [] p = 2 -> <<5, 6>> [] p = 4 -> <<7>>
                                         [] p = 5 -> <<8>> [] OTHER -> <<>>],
             Tact  |-> [p \in 1..8 |-> CASE p = 1 -> {2} [] p = 2 -> {1} [] OTHER -> {}],
             Chk   |-> [p \in 1..8 |-> p \in {3, 8}],
             Hist  |-> <<>> ],
    g3 |-> [ N |-> 10,   \* defensive: 1->2 allows mate in one (2->5), 1->3 allows a quiescence-visible mate in two, 1->4 is safe
             Moves |-> [p \in 1..10 |-> CASE p = 1 -> <<2, 3, 4>> [] p = 2 -> <<5, 6>> [] p = 3 -> <<7>>
                                          [] p = 7 -> <<8>> [] p = 8 -> <<9>> [] p = 4 -> <<10>> [] OTHER -> <<>>],
             Tact  |-> [p \in 1..10 |-> CASE p = 8 -> {1} [] OTHER -> {}],
             Chk   |-> [p \in 1..10 |-> p \in {5, 9}],
             Hist  |-> <<>> ],
    g4 |-> [ N |-> 8,    \* repetition: 3 (ply 1) and 5 (ply 2) have already occurred twice in the game, 2 once;
                         \* 6 is a stalemate.  (Edges respect the parity of chess: positions alternate the
                         \* side to move, so a position cannot recur an odd number of plies later.)
             Moves |-> [p \in 1..8 |-> CASE p = 1 -> <<2, 3>> [] p = 2 -> <<4, 5>> [] p = 3 -> <<6, 7>> [] p = 4 -> <<8>> [] OTHER -> <<>>],
             Tact  |-> [p \in 1..8 |-> {}],
             Chk   |-> [p \in 1..8 |-> FALSE],
             Hist  |-> <<3, 2, 3, 5, 5>> ] ]

Gr == Graphs[G]
Pos == 1..Gr.N
Moves == Gr.Moves
Tact == Gr.Tact
Chk == Gr.Chk
GameHist == Gr.Hist
Root == 1

Max2(a, b) == IF a >= b THEN a ELSE b
Min2(a, b) == IF a <= b THEN a ELSE b
SetMax(S) == CHOOSE x \in S : \A y \in S : x >= y
None == [depth |-> -1, score |-> 0, bound |-> "E", move |-> NoMove]

\* value classes: at or beyond the window = won / lost
Cls(v) == IF v <= -INF THEN -INF ELSE IF v >= INF THEN INF ELSE v

Count(s, x) == Cardinality({i \in 1..Len(s) : s[i] = x})
\* src/repetition.rs: is_repetition - two earlier occurrences in the stack (game history + root)
RepDraw(stack, q) == Count(stack, q) >= 2

Rev(s) == [i \in 1..Len(s) |-> s[Len(s) + 1 - i]]
QMoves(p) == IF Chk[p] THEN Moves[p]
             ELSE SelectSeq(Moves[p], LAMBDA x : \E j \in Tact[p] : Moves[p][j] = x)
\* order in which quiescence examines its moves (order_captures; any permutation is a refinement - the
\* trace specification replaces this operator by the recorded order)
QOrd(p, o) == IF o = "rev" THEN Rev(QMoves(p)) ELSE QMoves(p)

(* ---------------- reference: minimax with leaves valued by the unpruned quiescence recursion *)
RECURSIVE QV(_, _)
QV(ev, p) == IF Chk[p] /\ Moves[p] = <<>> THEN -INF
             ELSE LET ms == QMoves(p)
                  IN SetMax({ev[p]} \cup {Cls(-QV(ev, ms[i])) : i \in 1..Len(ms)})
\* ply0 = TRUE at the root (the repetition rule applies at ply > 0 only)
RECURSIVE MM(_, _, _, _)
MM(ev, p, d, ply0) ==
  IF ~ply0 /\ RepDraw(Append(GameHist, Root), p) THEN 0
  ELSE IF d = 0 THEN QV(ev, p)
  ELSE IF Moves[p] = <<>> THEN (IF Chk[p] THEN -INF ELSE 0)
  ELSE SetMax({Cls(-MM(ev, Moves[p][i], d - 1, FALSE)) : i \in 1..Len(Moves[p])})

\* move ordering: table move first (if it is a move here), the rest in the order chosen for this behaviour
Ordered(p, tm, ord) == LET ms == IF ord = "rev" THEN Rev(Moves[p]) ELSE Moves[p] IN
                       IF tm # NoMove /\ \E i \in 1..Len(ms) : ms[i] = tm
                       THEN <<tm>> \o SelectSeq(ms, LAMBDA x : x # tm) ELSE ms

(* --algorithm Search {
variables ev \in [Pos -> Vals], ord \in Orders,
          tt = [q \in Pos |-> None], hist = GameHist,
          expired = FALSE, armed = FALSE,
          ret = 0, retMove = NoMove, nodes = 0, after = 0, polls = 0, firstTrue = 0,
          best = -INF, bestMove = NoMove, round = 0, done = FALSE, curD = 0, completed = 0;

define {
  \* src/timer.rs should_stop(): wall clock (set by the clock process) or node budget (hook)
  \* the answer of should_stop() when it is evaluated for the k-th time in this search
  StopAt(k) == IF ClockMode THEN expired ELSE armed /\ (IF PollMode THEN k >= Budget ELSE nodes >= Budget)
  Stop == StopAt(polls)
}

\* every evaluation of should_stop() in the code is one poll; firstTrue remembers which one was the
\* first to answer true (used to show that node budgets reach every interruption point)
\* (StopAt(polls) AFTER the assignment: the translation primes the variable in the argument, whereas the
\* defined operator Stop would still read the old counter)
macro poll() { polls := polls + 1; if (StopAt(polls) /\ firstTrue = 0) { firstTrue := polls } }

procedure quiesce(qp, qa, qb)       \* src/search.rs:226 search_until_quiet
  variables qms = <<>>, qi = 1, qs = 0;
{
 q0: if (Stop) { after := after + 1 };     \* entered although should_stop() would already answer true
     nodes := nodes + 1;
     qms := QOrd(qp, ord);
 q1: if (qms = <<>> /\ Chk[qp]) { ret := -MATE; return; }          \* checkmate detection
     else if (ev[qp] >= qb) { ret := qb; return; }                 \* stand-pat cut-off (fail hard)
     else { qa := Max2(qa, ev[qp]) };
 q2: while (qi <= Len(qms)) {
        poll();
        if (StopAt(polls)) { goto q4 };
 q2c:   call quiesce(qms[qi], -qb, -qa);
 q3:    qs := -ret;
 q3b:   if (qs >= qb) { ret := qb; return; }
        else { qa := Max2(qa, qs); qi := qi + 1 };
     };
 q4: ret := qa;
     return;
}

procedure negamax(p, depth, ply, alpha, beta)     \* src/search.rs:141
  variables a0 = 0, nb = -INF, nbm = NoMove, i = 1, sc = 0, e = None, lo = 0, hi = 0, ms = <<>>;
{
 n0: if (Stop) { after := after + 1 };
     nodes := nodes + 1;
     a0 := alpha;
 nr: if (ply > 0 /\ RepDraw(hist, p)) { ret := 0; retMove := NoMove; return; };
 np: e := tt[p];                                                    \* probe_transposition_table
     lo := IF e.depth >= depth /\ e.bound = "L" THEN Max2(alpha, e.score) ELSE alpha;
     hi := IF e.depth >= depth /\ e.bound = "U" THEN Min2(beta, e.score) ELSE beta;
 n0b: if (e.depth >= depth /\ (e.bound = "E" \/ lo >= hi)) { ret := e.score; retMove := e.move; return; };
 n1: if (depth = 0) { call quiesce(p, alpha, beta); n1r: retMove := NoMove; return; };
 n1b: if (Moves[p] = <<>>) { ret := IF Chk[p] THEN -MATE + depth ELSE 0; retMove := NoMove; return; };
 n1c: ms := Ordered(p, e.move, ord);
      nbm := ms[1];                                                 \* SearchResult::worst(moves[0])
 n2: while (i <= Len(ms)) {
        poll();
        if (StopAt(polls)) { goto n4 };
 n2c:   call negamax(ms[i], depth - 1, ply + 1, -beta, -alpha);
 n3:    sc := -ret;
        if (sc > nb) { nb := sc; nbm := ms[i] };
        alpha := Max2(alpha, sc);
        if (alpha >= beta) { goto n4 } else { i := i + 1 };
     };
 n4: poll();
     if (StoreOnAbort \/ ~StopAt(polls)) {                                   \* the C06 repair: no store after the deadline
        if (tt[p].depth <= depth) {                                 \* depth-preferred replacement
           tt[p] := [depth |-> depth, score |-> nb, move |-> nbm,
                     bound |-> IF nb <= a0 THEN "U" ELSE IF nb >= beta THEN "L" ELSE "E"];
        }
     };
     ret := nb; retMove := nbm;
     return;
}

procedure find_best_move()       \* src/search.rs:75
{
 f0: best := -INF; bestMove := NoMove; curD := 1; nodes := 0; after := 0; polls := 0; firstTrue := 0;
 f1: while (curD <= D) {
        poll();
        if (StopAt(polls)) { goto f8 };
 fp:    hist := Append(hist, Root);                                 \* search_position: push the root
 f2:    call negamax(Root, curD, 0, -INF, INF);
 f3:    hist := SubSeq(hist, 1, Len(hist) - 1);                     \* pop
        poll();
        if (~StopAt(polls)) {
           best := ret; bestMove := retMove; completed := curD;
           if (tt[Root].depth <= curD) {                            \* cache_search_result
              tt[Root] := [depth |-> curD, score |-> ret, move |-> retMove, bound |-> "E"];
           }
        };
        curD := curD + 1;
     };
 f8: if (bestMove = NoMove /\ Moves[Root] # <<>>) { bestMove := Moves[Root][1] };   \* the C03 repair
 f9: return;
}

process (searcher = "s")
{
 s0: while (round < Aborts) {
        armed := TRUE; expired := FALSE; completed := 0;
        call find_best_move();
 s1:    armed := FALSE; round := round + 1;
     };
 s2: expired := FALSE; completed := 0; armed := FALSE;
     call find_best_move();
 s3: done := TRUE;
}
process (clock = "c")
{
 c0: while (TRUE) { await ClockMode /\ armed /\ ~expired; expired := TRUE; }
}
} *)
\* BEGIN TRANSLATION
CONSTANT defaultInitValue
VARIABLES pc, ev, ord, tt, hist, expired, armed, ret, retMove, nodes, after, 
          polls, firstTrue, best, bestMove, round, done, curD, completed, 
          stack

(* define statement *)
StopAt(k) == IF ClockMode THEN expired ELSE armed /\ (IF PollMode THEN k >= Budget ELSE nodes >= Budget)
Stop == StopAt(polls)

VARIABLES qp, qa, qb, qms, qi, qs, p, depth, ply, alpha, beta, a0, nb, nbm, i, 
          sc, e, lo, hi, ms

vars == << pc, ev, ord, tt, hist, expired, armed, ret, retMove, nodes, after, 
           polls, firstTrue, best, bestMove, round, done, curD, completed, 
           stack, qp, qa, qb, qms, qi, qs, p, depth, ply, alpha, beta, a0, nb, 
           nbm, i, sc, e, lo, hi, ms >>

ProcSet == {"s"} \cup {"c"}

Init == (* Global variables *)
        /\ ev \in [Pos -> Vals]
        /\ ord \in Orders
        /\ tt = [q \in Pos |-> None]
        /\ hist = GameHist
        /\ expired = FALSE
        /\ armed = FALSE
        /\ ret = 0
        /\ retMove = NoMove
        /\ nodes = 0
        /\ after = 0
        /\ polls = 0
        /\ firstTrue = 0
        /\ best = -INF
        /\ bestMove = NoMove
        /\ round = 0
        /\ done = FALSE
        /\ curD = 0
        /\ completed = 0
        (* Procedure quiesce *)
        /\ qp = [ self \in ProcSet |-> defaultInitValue]
        /\ qa = [ self \in ProcSet |-> defaultInitValue]
        /\ qb = [ self \in ProcSet |-> defaultInitValue]
        /\ qms = [ self \in ProcSet |-> <<>>]
        /\ qi = [ self \in ProcSet |-> 1]
        /\ qs = [ self \in ProcSet |-> 0]
        (* Procedure negamax *)
        /\ p = [ self \in ProcSet |-> defaultInitValue]
        /\ depth = [ self \in ProcSet |-> defaultInitValue]
        /\ ply = [ self \in ProcSet |-> defaultInitValue]
        /\ alpha = [ self \in ProcSet |-> defaultInitValue]
        /\ beta = [ self \in ProcSet |-> defaultInitValue]
        /\ a0 = [ self \in ProcSet |-> 0]
        /\ nb = [ self \in ProcSet |-> -INF]
        /\ nbm = [ self \in ProcSet |-> NoMove]
        /\ i = [ self \in ProcSet |-> 1]
        /\ sc = [ self \in ProcSet |-> 0]
        /\ e = [ self \in ProcSet |-> None]
        /\ lo = [ self \in ProcSet |-> 0]
        /\ hi = [ self \in ProcSet |-> 0]
        /\ ms = [ self \in ProcSet |-> <<>>]
        /\ stack = [self \in ProcSet |-> << >>]
        /\ pc = [self \in ProcSet |-> CASE self = "s" -> "s0"
                                        [] self = "c" -> "c0"]

q0(self) == /\ pc[self] = "q0"
            /\ IF Stop
                  THEN /\ after' = after + 1
                  ELSE /\ TRUE
                       /\ after' = after
            /\ nodes' = nodes + 1
            /\ qms' = [qms EXCEPT ![self] = QOrd(qp[self], ord)]
            /\ pc' = [pc EXCEPT ![self] = "q1"]
            /\ UNCHANGED << ev, ord, tt, hist, expired, armed, ret, retMove, 
                            polls, firstTrue, best, bestMove, round, done, 
                            curD, completed, stack, qp, qa, qb, qi, qs, p, 
                            depth, ply, alpha, beta, a0, nb, nbm, i, sc, e, lo, 
                            hi, ms >>

q1(self) == /\ pc[self] = "q1"
            /\ IF qms[self] = <<>> /\ Chk[qp[self]]
                  THEN /\ ret' = -MATE
                       /\ pc' = [pc EXCEPT ![self] = Head(stack[self]).pc]
                       /\ qms' = [qms EXCEPT ![self] = Head(stack[self]).qms]
                       /\ qi' = [qi EXCEPT ![self] = Head(stack[self]).qi]
                       /\ qs' = [qs EXCEPT ![self] = Head(stack[self]).qs]
                       /\ qp' = [qp EXCEPT ![self] = Head(stack[self]).qp]
                       /\ qa' = [qa EXCEPT ![self] = Head(stack[self]).qa]
                       /\ qb' = [qb EXCEPT ![self] = Head(stack[self]).qb]
                       /\ stack' = [stack EXCEPT ![self] = Tail(stack[self])]
                  ELSE /\ IF ev[qp[self]] >= qb[self]
                             THEN /\ ret' = qb[self]
                                  /\ pc' = [pc EXCEPT ![self] = Head(stack[self]).pc]
                                  /\ qms' = [qms EXCEPT ![self] = Head(stack[self]).qms]
                                  /\ qi' = [qi EXCEPT ![self] = Head(stack[self]).qi]
                                  /\ qs' = [qs EXCEPT ![self] = Head(stack[self]).qs]
                                  /\ qp' = [qp EXCEPT ![self] = Head(stack[self]).qp]
                                  /\ qa' = [qa EXCEPT ![self] = Head(stack[self]).qa]
                                  /\ qb' = [qb EXCEPT ![self] = Head(stack[self]).qb]
                                  /\ stack' = [stack EXCEPT ![self] = Tail(stack[self])]
                             ELSE /\ qa' = [qa EXCEPT ![self] = Max2(qa[self], ev[qp[self]])]
                                  /\ pc' = [pc EXCEPT ![self] = "q2"]
                                  /\ UNCHANGED << ret, stack, qp, qb, qms, qi, 
                                                  qs >>
            /\ UNCHANGED << ev, ord, tt, hist, expired, armed, retMove, nodes, 
                            after, polls, firstTrue, best, bestMove, round, 
                            done, curD, completed, p, depth, ply, alpha, beta, 
                            a0, nb, nbm, i, sc, e, lo, hi, ms >>

q2(self) == /\ pc[self] = "q2"
            /\ IF qi[self] <= Len(qms[self])
                  THEN /\ polls' = polls + 1
                       /\ IF StopAt(polls') /\ firstTrue = 0
                             THEN /\ firstTrue' = polls'
                             ELSE /\ TRUE
                                  /\ UNCHANGED firstTrue
                       /\ IF StopAt(polls')
                             THEN /\ pc' = [pc EXCEPT ![self] = "q4"]
                             ELSE /\ pc' = [pc EXCEPT ![self] = "q2c"]
                  ELSE /\ pc' = [pc EXCEPT ![self] = "q4"]
                       /\ UNCHANGED << polls, firstTrue >>
            /\ UNCHANGED << ev, ord, tt, hist, expired, armed, ret, retMove, 
                            nodes, after, best, bestMove, round, done, curD, 
                            completed, stack, qp, qa, qb, qms, qi, qs, p, 
                            depth, ply, alpha, beta, a0, nb, nbm, i, sc, e, lo, 
                            hi, ms >>

q2c(self) == /\ pc[self] = "q2c"
             /\ /\ qa' = [qa EXCEPT ![self] = -qb[self]]
                /\ qb' = [qb EXCEPT ![self] = -qa[self]]
                /\ qp' = [qp EXCEPT ![self] = qms[self][qi[self]]]
                /\ stack' = [stack EXCEPT ![self] = << [ procedure |->  "quiesce",
                                                         pc        |->  "q3",
                                                         qms       |->  qms[self],
                                                         qi        |->  qi[self],
                                                         qs        |->  qs[self],
                                                         qp        |->  qp[self],
                                                         qa        |->  qa[self],
                                                         qb        |->  qb[self] ] >>
                                                     \o stack[self]]
             /\ qms' = [qms EXCEPT ![self] = <<>>]
             /\ qi' = [qi EXCEPT ![self] = 1]
             /\ qs' = [qs EXCEPT ![self] = 0]
             /\ pc' = [pc EXCEPT ![self] = "q0"]
             /\ UNCHANGED << ev, ord, tt, hist, expired, armed, ret, retMove, 
                             nodes, after, polls, firstTrue, best, bestMove, 
                             round, done, curD, completed, p, depth, ply, 
                             alpha, beta, a0, nb, nbm, i, sc, e, lo, hi, ms >>

q3(self) == /\ pc[self] = "q3"
            /\ qs' = [qs EXCEPT ![self] = -ret]
            /\ pc' = [pc EXCEPT ![self] = "q3b"]
            /\ UNCHANGED << ev, ord, tt, hist, expired, armed, ret, retMove, 
                            nodes, after, polls, firstTrue, best, bestMove, 
                            round, done, curD, completed, stack, qp, qa, qb, 
                            qms, qi, p, depth, ply, alpha, beta, a0, nb, nbm, 
                            i, sc, e, lo, hi, ms >>

q3b(self) == /\ pc[self] = "q3b"
             /\ IF qs[self] >= qb[self]
                   THEN /\ ret' = qb[self]
                        /\ pc' = [pc EXCEPT ![self] = Head(stack[self]).pc]
                        /\ qms' = [qms EXCEPT ![self] = Head(stack[self]).qms]
                        /\ qi' = [qi EXCEPT ![self] = Head(stack[self]).qi]
                        /\ qs' = [qs EXCEPT ![self] = Head(stack[self]).qs]
                        /\ qp' = [qp EXCEPT ![self] = Head(stack[self]).qp]
                        /\ qa' = [qa EXCEPT ![self] = Head(stack[self]).qa]
                        /\ qb' = [qb EXCEPT ![self] = Head(stack[self]).qb]
                        /\ stack' = [stack EXCEPT ![self] = Tail(stack[self])]
                   ELSE /\ qa' = [qa EXCEPT ![self] = Max2(qa[self], qs[self])]
                        /\ qi' = [qi EXCEPT ![self] = qi[self] + 1]
                        /\ pc' = [pc EXCEPT ![self] = "q2"]
                        /\ UNCHANGED << ret, stack, qp, qb, qms, qs >>
             /\ UNCHANGED << ev, ord, tt, hist, expired, armed, retMove, nodes, 
                             after, polls, firstTrue, best, bestMove, round, 
                             done, curD, completed, p, depth, ply, alpha, beta, 
                             a0, nb, nbm, i, sc, e, lo, hi, ms >>

q4(self) == /\ pc[self] = "q4"
            /\ ret' = qa[self]
            /\ pc' = [pc EXCEPT ![self] = Head(stack[self]).pc]
            /\ qms' = [qms EXCEPT ![self] = Head(stack[self]).qms]
            /\ qi' = [qi EXCEPT ![self] = Head(stack[self]).qi]
            /\ qs' = [qs EXCEPT ![self] = Head(stack[self]).qs]
            /\ qp' = [qp EXCEPT ![self] = Head(stack[self]).qp]
            /\ qa' = [qa EXCEPT ![self] = Head(stack[self]).qa]
            /\ qb' = [qb EXCEPT ![self] = Head(stack[self]).qb]
            /\ stack' = [stack EXCEPT ![self] = Tail(stack[self])]
            /\ UNCHANGED << ev, ord, tt, hist, expired, armed, retMove, nodes, 
                            after, polls, firstTrue, best, bestMove, round, 
                            done, curD, completed, p, depth, ply, alpha, beta, 
                            a0, nb, nbm, i, sc, e, lo, hi, ms >>

quiesce(self) == q0(self) \/ q1(self) \/ q2(self) \/ q2c(self) \/ q3(self)
                    \/ q3b(self) \/ q4(self)

n0(self) == /\ pc[self] = "n0"
            /\ IF Stop
                  THEN /\ after' = after + 1
                  ELSE /\ TRUE
                       /\ after' = after
            /\ nodes' = nodes + 1
            /\ a0' = [a0 EXCEPT ![self] = alpha[self]]
            /\ pc' = [pc EXCEPT ![self] = "nr"]
            /\ UNCHANGED << ev, ord, tt, hist, expired, armed, ret, retMove, 
                            polls, firstTrue, best, bestMove, round, done, 
                            curD, completed, stack, qp, qa, qb, qms, qi, qs, p, 
                            depth, ply, alpha, beta, nb, nbm, i, sc, e, lo, hi, 
                            ms >>

nr(self) == /\ pc[self] = "nr"
            /\ IF ply[self] > 0 /\ RepDraw(hist, p[self])
                  THEN /\ ret' = 0
                       /\ retMove' = NoMove
                       /\ pc' = [pc EXCEPT ![self] = Head(stack[self]).pc]
                       /\ a0' = [a0 EXCEPT ![self] = Head(stack[self]).a0]
                       /\ nb' = [nb EXCEPT ![self] = Head(stack[self]).nb]
                       /\ nbm' = [nbm EXCEPT ![self] = Head(stack[self]).nbm]
                       /\ i' = [i EXCEPT ![self] = Head(stack[self]).i]
                       /\ sc' = [sc EXCEPT ![self] = Head(stack[self]).sc]
                       /\ e' = [e EXCEPT ![self] = Head(stack[self]).e]
                       /\ lo' = [lo EXCEPT ![self] = Head(stack[self]).lo]
                       /\ hi' = [hi EXCEPT ![self] = Head(stack[self]).hi]
                       /\ ms' = [ms EXCEPT ![self] = Head(stack[self]).ms]
                       /\ p' = [p EXCEPT ![self] = Head(stack[self]).p]
                       /\ depth' = [depth EXCEPT ![self] = Head(stack[self]).depth]
                       /\ ply' = [ply EXCEPT ![self] = Head(stack[self]).ply]
                       /\ alpha' = [alpha EXCEPT ![self] = Head(stack[self]).alpha]
                       /\ beta' = [beta EXCEPT ![self] = Head(stack[self]).beta]
                       /\ stack' = [stack EXCEPT ![self] = Tail(stack[self])]
                  ELSE /\ pc' = [pc EXCEPT ![self] = "np"]
                       /\ UNCHANGED << ret, retMove, stack, p, depth, ply, 
                                       alpha, beta, a0, nb, nbm, i, sc, e, lo, 
                                       hi, ms >>
            /\ UNCHANGED << ev, ord, tt, hist, expired, armed, nodes, after, 
                            polls, firstTrue, best, bestMove, round, done, 
                            curD, completed, qp, qa, qb, qms, qi, qs >>

np(self) == /\ pc[self] = "np"
            /\ e' = [e EXCEPT ![self] = tt[p[self]]]
            /\ lo' = [lo EXCEPT ![self] = IF e'[self].depth >= depth[self] /\ e'[self].bound = "L" THEN Max2(alpha[self], e'[self].score) ELSE alpha[self]]
            /\ hi' = [hi EXCEPT ![self] = IF e'[self].depth >= depth[self] /\ e'[self].bound = "U" THEN Min2(beta[self], e'[self].score) ELSE beta[self]]
            /\ pc' = [pc EXCEPT ![self] = "n0b"]
            /\ UNCHANGED << ev, ord, tt, hist, expired, armed, ret, retMove, 
                            nodes, after, polls, firstTrue, best, bestMove, 
                            round, done, curD, completed, stack, qp, qa, qb, 
                            qms, qi, qs, p, depth, ply, alpha, beta, a0, nb, 
                            nbm, i, sc, ms >>

n0b(self) == /\ pc[self] = "n0b"
             /\ IF e[self].depth >= depth[self] /\ (e[self].bound = "E" \/ lo[self] >= hi[self])
                   THEN /\ ret' = e[self].score
                        /\ retMove' = e[self].move
                        /\ pc' = [pc EXCEPT ![self] = Head(stack[self]).pc]
                        /\ a0' = [a0 EXCEPT ![self] = Head(stack[self]).a0]
                        /\ nb' = [nb EXCEPT ![self] = Head(stack[self]).nb]
                        /\ nbm' = [nbm EXCEPT ![self] = Head(stack[self]).nbm]
                        /\ i' = [i EXCEPT ![self] = Head(stack[self]).i]
                        /\ sc' = [sc EXCEPT ![self] = Head(stack[self]).sc]
                        /\ e' = [e EXCEPT ![self] = Head(stack[self]).e]
                        /\ lo' = [lo EXCEPT ![self] = Head(stack[self]).lo]
                        /\ hi' = [hi EXCEPT ![self] = Head(stack[self]).hi]
                        /\ ms' = [ms EXCEPT ![self] = Head(stack[self]).ms]
                        /\ p' = [p EXCEPT ![self] = Head(stack[self]).p]
                        /\ depth' = [depth EXCEPT ![self] = Head(stack[self]).depth]
                        /\ ply' = [ply EXCEPT ![self] = Head(stack[self]).ply]
                        /\ alpha' = [alpha EXCEPT ![self] = Head(stack[self]).alpha]
                        /\ beta' = [beta EXCEPT ![self] = Head(stack[self]).beta]
                        /\ stack' = [stack EXCEPT ![self] = Tail(stack[self])]
                   ELSE /\ pc' = [pc EXCEPT ![self] = "n1"]
                        /\ UNCHANGED << ret, retMove, stack, p, depth, ply, 
                                        alpha, beta, a0, nb, nbm, i, sc, e, lo, 
                                        hi, ms >>
             /\ UNCHANGED << ev, ord, tt, hist, expired, armed, nodes, after, 
                             polls, firstTrue, best, bestMove, round, done, 
                             curD, completed, qp, qa, qb, qms, qi, qs >>

n1(self) == /\ pc[self] = "n1"
            /\ IF depth[self] = 0
                  THEN /\ /\ qa' = [qa EXCEPT ![self] = alpha[self]]
                          /\ qb' = [qb EXCEPT ![self] = beta[self]]
                          /\ qp' = [qp EXCEPT ![self] = p[self]]
                          /\ stack' = [stack EXCEPT ![self] = << [ procedure |->  "quiesce",
                                                                   pc        |->  "n1r",
                                                                   qms       |->  qms[self],
                                                                   qi        |->  qi[self],
                                                                   qs        |->  qs[self],
                                                                   qp        |->  qp[self],
                                                                   qa        |->  qa[self],
                                                                   qb        |->  qb[self] ] >>
                                                               \o stack[self]]
                       /\ qms' = [qms EXCEPT ![self] = <<>>]
                       /\ qi' = [qi EXCEPT ![self] = 1]
                       /\ qs' = [qs EXCEPT ![self] = 0]
                       /\ pc' = [pc EXCEPT ![self] = "q0"]
                  ELSE /\ pc' = [pc EXCEPT ![self] = "n1b"]
                       /\ UNCHANGED << stack, qp, qa, qb, qms, qi, qs >>
            /\ UNCHANGED << ev, ord, tt, hist, expired, armed, ret, retMove, 
                            nodes, after, polls, firstTrue, best, bestMove, 
                            round, done, curD, completed, p, depth, ply, alpha, 
                            beta, a0, nb, nbm, i, sc, e, lo, hi, ms >>

n1r(self) == /\ pc[self] = "n1r"
             /\ retMove' = NoMove
             /\ pc' = [pc EXCEPT ![self] = Head(stack[self]).pc]
             /\ a0' = [a0 EXCEPT ![self] = Head(stack[self]).a0]
             /\ nb' = [nb EXCEPT ![self] = Head(stack[self]).nb]
             /\ nbm' = [nbm EXCEPT ![self] = Head(stack[self]).nbm]
             /\ i' = [i EXCEPT ![self] = Head(stack[self]).i]
             /\ sc' = [sc EXCEPT ![self] = Head(stack[self]).sc]
             /\ e' = [e EXCEPT ![self] = Head(stack[self]).e]
             /\ lo' = [lo EXCEPT ![self] = Head(stack[self]).lo]
             /\ hi' = [hi EXCEPT ![self] = Head(stack[self]).hi]
             /\ ms' = [ms EXCEPT ![self] = Head(stack[self]).ms]
             /\ p' = [p EXCEPT ![self] = Head(stack[self]).p]
             /\ depth' = [depth EXCEPT ![self] = Head(stack[self]).depth]
             /\ ply' = [ply EXCEPT ![self] = Head(stack[self]).ply]
             /\ alpha' = [alpha EXCEPT ![self] = Head(stack[self]).alpha]
             /\ beta' = [beta EXCEPT ![self] = Head(stack[self]).beta]
             /\ stack' = [stack EXCEPT ![self] = Tail(stack[self])]
             /\ UNCHANGED << ev, ord, tt, hist, expired, armed, ret, nodes, 
                             after, polls, firstTrue, best, bestMove, round, 
                             done, curD, completed, qp, qa, qb, qms, qi, qs >>

n1b(self) == /\ pc[self] = "n1b"
             /\ IF Moves[p[self]] = <<>>
                   THEN /\ ret' = IF Chk[p[self]] THEN -MATE + depth[self] ELSE 0
                        /\ retMove' = NoMove
                        /\ pc' = [pc EXCEPT ![self] = Head(stack[self]).pc]
                        /\ a0' = [a0 EXCEPT ![self] = Head(stack[self]).a0]
                        /\ nb' = [nb EXCEPT ![self] = Head(stack[self]).nb]
                        /\ nbm' = [nbm EXCEPT ![self] = Head(stack[self]).nbm]
                        /\ i' = [i EXCEPT ![self] = Head(stack[self]).i]
                        /\ sc' = [sc EXCEPT ![self] = Head(stack[self]).sc]
                        /\ e' = [e EXCEPT ![self] = Head(stack[self]).e]
                        /\ lo' = [lo EXCEPT ![self] = Head(stack[self]).lo]
                        /\ hi' = [hi EXCEPT ![self] = Head(stack[self]).hi]
                        /\ ms' = [ms EXCEPT ![self] = Head(stack[self]).ms]
                        /\ p' = [p EXCEPT ![self] = Head(stack[self]).p]
                        /\ depth' = [depth EXCEPT ![self] = Head(stack[self]).depth]
                        /\ ply' = [ply EXCEPT ![self] = Head(stack[self]).ply]
                        /\ alpha' = [alpha EXCEPT ![self] = Head(stack[self]).alpha]
                        /\ beta' = [beta EXCEPT ![self] = Head(stack[self]).beta]
                        /\ stack' = [stack EXCEPT ![self] = Tail(stack[self])]
                   ELSE /\ pc' = [pc EXCEPT ![self] = "n1c"]
                        /\ UNCHANGED << ret, retMove, stack, p, depth, ply, 
                                        alpha, beta, a0, nb, nbm, i, sc, e, lo, 
                                        hi, ms >>
             /\ UNCHANGED << ev, ord, tt, hist, expired, armed, nodes, after, 
                             polls, firstTrue, best, bestMove, round, done, 
                             curD, completed, qp, qa, qb, qms, qi, qs >>

n1c(self) == /\ pc[self] = "n1c"
             /\ ms' = [ms EXCEPT ![self] = Ordered(p[self], e[self].move, ord)]
             /\ nbm' = [nbm EXCEPT ![self] = ms'[self][1]]
             /\ pc' = [pc EXCEPT ![self] = "n2"]
             /\ UNCHANGED << ev, ord, tt, hist, expired, armed, ret, retMove, 
                             nodes, after, polls, firstTrue, best, bestMove, 
                             round, done, curD, completed, stack, qp, qa, qb, 
                             qms, qi, qs, p, depth, ply, alpha, beta, a0, nb, 
                             i, sc, e, lo, hi >>

n2(self) == /\ pc[self] = "n2"
            /\ IF i[self] <= Len(ms[self])
                  THEN /\ polls' = polls + 1
                       /\ IF StopAt(polls') /\ firstTrue = 0
                             THEN /\ firstTrue' = polls'
                             ELSE /\ TRUE
                                  /\ UNCHANGED firstTrue
                       /\ IF StopAt(polls')
                             THEN /\ pc' = [pc EXCEPT ![self] = "n4"]
                             ELSE /\ pc' = [pc EXCEPT ![self] = "n2c"]
                  ELSE /\ pc' = [pc EXCEPT ![self] = "n4"]
                       /\ UNCHANGED << polls, firstTrue >>
            /\ UNCHANGED << ev, ord, tt, hist, expired, armed, ret, retMove, 
                            nodes, after, best, bestMove, round, done, curD, 
                            completed, stack, qp, qa, qb, qms, qi, qs, p, 
                            depth, ply, alpha, beta, a0, nb, nbm, i, sc, e, lo, 
                            hi, ms >>

n2c(self) == /\ pc[self] = "n2c"
             /\ /\ alpha' = [alpha EXCEPT ![self] = -beta[self]]
                /\ beta' = [beta EXCEPT ![self] = -alpha[self]]
                /\ depth' = [depth EXCEPT ![self] = depth[self] - 1]
                /\ p' = [p EXCEPT ![self] = ms[self][i[self]]]
                /\ ply' = [ply EXCEPT ![self] = ply[self] + 1]
                /\ stack' = [stack EXCEPT ![self] = << [ procedure |->  "negamax",
                                                         pc        |->  "n3",
                                                         a0        |->  a0[self],
                                                         nb        |->  nb[self],
                                                         nbm       |->  nbm[self],
                                                         i         |->  i[self],
                                                         sc        |->  sc[self],
                                                         e         |->  e[self],
                                                         lo        |->  lo[self],
                                                         hi        |->  hi[self],
                                                         ms        |->  ms[self],
                                                         p         |->  p[self],
                                                         depth     |->  depth[self],
                                                         ply       |->  ply[self],
                                                         alpha     |->  alpha[self],
                                                         beta      |->  beta[self] ] >>
                                                     \o stack[self]]
             /\ a0' = [a0 EXCEPT ![self] = 0]
             /\ nb' = [nb EXCEPT ![self] = -INF]
             /\ nbm' = [nbm EXCEPT ![self] = NoMove]
             /\ i' = [i EXCEPT ![self] = 1]
             /\ sc' = [sc EXCEPT ![self] = 0]
             /\ e' = [e EXCEPT ![self] = None]
             /\ lo' = [lo EXCEPT ![self] = 0]
             /\ hi' = [hi EXCEPT ![self] = 0]
             /\ ms' = [ms EXCEPT ![self] = <<>>]
             /\ pc' = [pc EXCEPT ![self] = "n0"]
             /\ UNCHANGED << ev, ord, tt, hist, expired, armed, ret, retMove, 
                             nodes, after, polls, firstTrue, best, bestMove, 
                             round, done, curD, completed, qp, qa, qb, qms, qi, 
                             qs >>

n3(self) == /\ pc[self] = "n3"
            /\ sc' = [sc EXCEPT ![self] = -ret]
            /\ IF sc'[self] > nb[self]
                  THEN /\ nb' = [nb EXCEPT ![self] = sc'[self]]
                       /\ nbm' = [nbm EXCEPT ![self] = ms[self][i[self]]]
                  ELSE /\ TRUE
                       /\ UNCHANGED << nb, nbm >>
            /\ alpha' = [alpha EXCEPT ![self] = Max2(alpha[self], sc'[self])]
            /\ IF alpha'[self] >= beta[self]
                  THEN /\ pc' = [pc EXCEPT ![self] = "n4"]
                       /\ i' = i
                  ELSE /\ i' = [i EXCEPT ![self] = i[self] + 1]
                       /\ pc' = [pc EXCEPT ![self] = "n2"]
            /\ UNCHANGED << ev, ord, tt, hist, expired, armed, ret, retMove, 
                            nodes, after, polls, firstTrue, best, bestMove, 
                            round, done, curD, completed, stack, qp, qa, qb, 
                            qms, qi, qs, p, depth, ply, beta, a0, e, lo, hi, 
                            ms >>

n4(self) == /\ pc[self] = "n4"
            /\ polls' = polls + 1
            /\ IF StopAt(polls') /\ firstTrue = 0
                  THEN /\ firstTrue' = polls'
                  ELSE /\ TRUE
                       /\ UNCHANGED firstTrue
            /\ IF StoreOnAbort \/ ~StopAt(polls')
                  THEN /\ IF tt[p[self]].depth <= depth[self]
                             THEN /\ tt' = [tt EXCEPT ![p[self]] = [depth |-> depth[self], score |-> nb[self], move |-> nbm[self],
                                                                    bound |-> IF nb[self] <= a0[self] THEN "U" ELSE IF nb[self] >= beta[self] THEN "L" ELSE "E"]]
                             ELSE /\ TRUE
                                  /\ tt' = tt
                  ELSE /\ TRUE
                       /\ tt' = tt
            /\ ret' = nb[self]
            /\ retMove' = nbm[self]
            /\ pc' = [pc EXCEPT ![self] = Head(stack[self]).pc]
            /\ a0' = [a0 EXCEPT ![self] = Head(stack[self]).a0]
            /\ nb' = [nb EXCEPT ![self] = Head(stack[self]).nb]
            /\ nbm' = [nbm EXCEPT ![self] = Head(stack[self]).nbm]
            /\ i' = [i EXCEPT ![self] = Head(stack[self]).i]
            /\ sc' = [sc EXCEPT ![self] = Head(stack[self]).sc]
            /\ e' = [e EXCEPT ![self] = Head(stack[self]).e]
            /\ lo' = [lo EXCEPT ![self] = Head(stack[self]).lo]
            /\ hi' = [hi EXCEPT ![self] = Head(stack[self]).hi]
            /\ ms' = [ms EXCEPT ![self] = Head(stack[self]).ms]
            /\ p' = [p EXCEPT ![self] = Head(stack[self]).p]
            /\ depth' = [depth EXCEPT ![self] = Head(stack[self]).depth]
            /\ ply' = [ply EXCEPT ![self] = Head(stack[self]).ply]
            /\ alpha' = [alpha EXCEPT ![self] = Head(stack[self]).alpha]
            /\ beta' = [beta EXCEPT ![self] = Head(stack[self]).beta]
            /\ stack' = [stack EXCEPT ![self] = Tail(stack[self])]
            /\ UNCHANGED << ev, ord, hist, expired, armed, nodes, after, best, 
                            bestMove, round, done, curD, completed, qp, qa, qb, 
                            qms, qi, qs >>

negamax(self) == n0(self) \/ nr(self) \/ np(self) \/ n0b(self) \/ n1(self)
                    \/ n1r(self) \/ n1b(self) \/ n1c(self) \/ n2(self)
                    \/ n2c(self) \/ n3(self) \/ n4(self)

f0(self) == /\ pc[self] = "f0"
            /\ best' = -INF
            /\ bestMove' = NoMove
            /\ curD' = 1
            /\ nodes' = 0
            /\ after' = 0
            /\ polls' = 0
            /\ firstTrue' = 0
            /\ pc' = [pc EXCEPT ![self] = "f1"]
            /\ UNCHANGED << ev, ord, tt, hist, expired, armed, ret, retMove, 
                            round, done, completed, stack, qp, qa, qb, qms, qi, 
                            qs, p, depth, ply, alpha, beta, a0, nb, nbm, i, sc, 
                            e, lo, hi, ms >>

f1(self) == /\ pc[self] = "f1"
            /\ IF curD <= D
                  THEN /\ polls' = polls + 1
                       /\ IF StopAt(polls') /\ firstTrue = 0
                             THEN /\ firstTrue' = polls'
                             ELSE /\ TRUE
                                  /\ UNCHANGED firstTrue
                       /\ IF StopAt(polls')
                             THEN /\ pc' = [pc EXCEPT ![self] = "f8"]
                             ELSE /\ pc' = [pc EXCEPT ![self] = "fp"]
                  ELSE /\ pc' = [pc EXCEPT ![self] = "f8"]
                       /\ UNCHANGED << polls, firstTrue >>
            /\ UNCHANGED << ev, ord, tt, hist, expired, armed, ret, retMove, 
                            nodes, after, best, bestMove, round, done, curD, 
                            completed, stack, qp, qa, qb, qms, qi, qs, p, 
                            depth, ply, alpha, beta, a0, nb, nbm, i, sc, e, lo, 
                            hi, ms >>

fp(self) == /\ pc[self] = "fp"
            /\ hist' = Append(hist, Root)
            /\ pc' = [pc EXCEPT ![self] = "f2"]
            /\ UNCHANGED << ev, ord, tt, expired, armed, ret, retMove, nodes, 
                            after, polls, firstTrue, best, bestMove, round, 
                            done, curD, completed, stack, qp, qa, qb, qms, qi, 
                            qs, p, depth, ply, alpha, beta, a0, nb, nbm, i, sc, 
                            e, lo, hi, ms >>

f2(self) == /\ pc[self] = "f2"
            /\ /\ alpha' = [alpha EXCEPT ![self] = -INF]
               /\ beta' = [beta EXCEPT ![self] = INF]
               /\ depth' = [depth EXCEPT ![self] = curD]
               /\ p' = [p EXCEPT ![self] = Root]
               /\ ply' = [ply EXCEPT ![self] = 0]
               /\ stack' = [stack EXCEPT ![self] = << [ procedure |->  "negamax",
                                                        pc        |->  "f3",
                                                        a0        |->  a0[self],
                                                        nb        |->  nb[self],
                                                        nbm       |->  nbm[self],
                                                        i         |->  i[self],
                                                        sc        |->  sc[self],
                                                        e         |->  e[self],
                                                        lo        |->  lo[self],
                                                        hi        |->  hi[self],
                                                        ms        |->  ms[self],
                                                        p         |->  p[self],
                                                        depth     |->  depth[self],
                                                        ply       |->  ply[self],
                                                        alpha     |->  alpha[self],
                                                        beta      |->  beta[self] ] >>
                                                    \o stack[self]]
            /\ a0' = [a0 EXCEPT ![self] = 0]
            /\ nb' = [nb EXCEPT ![self] = -INF]
            /\ nbm' = [nbm EXCEPT ![self] = NoMove]
            /\ i' = [i EXCEPT ![self] = 1]
            /\ sc' = [sc EXCEPT ![self] = 0]
            /\ e' = [e EXCEPT ![self] = None]
            /\ lo' = [lo EXCEPT ![self] = 0]
            /\ hi' = [hi EXCEPT ![self] = 0]
            /\ ms' = [ms EXCEPT ![self] = <<>>]
            /\ pc' = [pc EXCEPT ![self] = "n0"]
            /\ UNCHANGED << ev, ord, tt, hist, expired, armed, ret, retMove, 
                            nodes, after, polls, firstTrue, best, bestMove, 
                            round, done, curD, completed, qp, qa, qb, qms, qi, 
                            qs >>

f3(self) == /\ pc[self] = "f3"
            /\ hist' = SubSeq(hist, 1, Len(hist) - 1)
            /\ polls' = polls + 1
            /\ IF StopAt(polls') /\ firstTrue = 0
                  THEN /\ firstTrue' = polls'
                  ELSE /\ TRUE
                       /\ UNCHANGED firstTrue
            /\ IF ~StopAt(polls')
                  THEN /\ best' = ret
                       /\ bestMove' = retMove
                       /\ completed' = curD
                       /\ IF tt[Root].depth <= curD
                             THEN /\ tt' = [tt EXCEPT ![Root] = [depth |-> curD, score |-> ret, move |-> retMove, bound |-> "E"]]
                             ELSE /\ TRUE
                                  /\ tt' = tt
                  ELSE /\ TRUE
                       /\ UNCHANGED << tt, best, bestMove, completed >>
            /\ curD' = curD + 1
            /\ pc' = [pc EXCEPT ![self] = "f1"]
            /\ UNCHANGED << ev, ord, expired, armed, ret, retMove, nodes, 
                            after, round, done, stack, qp, qa, qb, qms, qi, qs, 
                            p, depth, ply, alpha, beta, a0, nb, nbm, i, sc, e, 
                            lo, hi, ms >>

f8(self) == /\ pc[self] = "f8"
            /\ IF bestMove = NoMove /\ Moves[Root] # <<>>
                  THEN /\ bestMove' = Moves[Root][1]
                  ELSE /\ TRUE
                       /\ UNCHANGED bestMove
            /\ pc' = [pc EXCEPT ![self] = "f9"]
            /\ UNCHANGED << ev, ord, tt, hist, expired, armed, ret, retMove, 
                            nodes, after, polls, firstTrue, best, round, done, 
                            curD, completed, stack, qp, qa, qb, qms, qi, qs, p, 
                            depth, ply, alpha, beta, a0, nb, nbm, i, sc, e, lo, 
                            hi, ms >>

f9(self) == /\ pc[self] = "f9"
            /\ pc' = [pc EXCEPT ![self] = Head(stack[self]).pc]
            /\ stack' = [stack EXCEPT ![self] = Tail(stack[self])]
            /\ UNCHANGED << ev, ord, tt, hist, expired, armed, ret, retMove, 
                            nodes, after, polls, firstTrue, best, bestMove, 
                            round, done, curD, completed, qp, qa, qb, qms, qi, 
                            qs, p, depth, ply, alpha, beta, a0, nb, nbm, i, sc, 
                            e, lo, hi, ms >>

find_best_move(self) == f0(self) \/ f1(self) \/ fp(self) \/ f2(self)
                           \/ f3(self) \/ f8(self) \/ f9(self)

s0 == /\ pc["s"] = "s0"
      /\ IF round < Aborts
            THEN /\ armed' = TRUE
                 /\ expired' = FALSE
                 /\ completed' = 0
                 /\ stack' = [stack EXCEPT !["s"] = << [ procedure |->  "find_best_move",
                                                         pc        |->  "s1" ] >>
                                                     \o stack["s"]]
                 /\ pc' = [pc EXCEPT !["s"] = "f0"]
            ELSE /\ pc' = [pc EXCEPT !["s"] = "s2"]
                 /\ UNCHANGED << expired, armed, completed, stack >>
      /\ UNCHANGED << ev, ord, tt, hist, ret, retMove, nodes, after, polls, 
                      firstTrue, best, bestMove, round, done, curD, qp, qa, qb, 
                      qms, qi, qs, p, depth, ply, alpha, beta, a0, nb, nbm, i, 
                      sc, e, lo, hi, ms >>

s1 == /\ pc["s"] = "s1"
      /\ armed' = FALSE
      /\ round' = round + 1
      /\ pc' = [pc EXCEPT !["s"] = "s0"]
      /\ UNCHANGED << ev, ord, tt, hist, expired, ret, retMove, nodes, after, 
                      polls, firstTrue, best, bestMove, done, curD, completed, 
                      stack, qp, qa, qb, qms, qi, qs, p, depth, ply, alpha, 
                      beta, a0, nb, nbm, i, sc, e, lo, hi, ms >>

s2 == /\ pc["s"] = "s2"
      /\ expired' = FALSE
      /\ completed' = 0
      /\ armed' = FALSE
      /\ stack' = [stack EXCEPT !["s"] = << [ procedure |->  "find_best_move",
                                              pc        |->  "s3" ] >>
                                          \o stack["s"]]
      /\ pc' = [pc EXCEPT !["s"] = "f0"]
      /\ UNCHANGED << ev, ord, tt, hist, ret, retMove, nodes, after, polls, 
                      firstTrue, best, bestMove, round, done, curD, qp, qa, qb, 
                      qms, qi, qs, p, depth, ply, alpha, beta, a0, nb, nbm, i, 
                      sc, e, lo, hi, ms >>

s3 == /\ pc["s"] = "s3"
      /\ done' = TRUE
      /\ pc' = [pc EXCEPT !["s"] = "Done"]
      /\ UNCHANGED << ev, ord, tt, hist, expired, armed, ret, retMove, nodes, 
                      after, polls, firstTrue, best, bestMove, round, curD, 
                      completed, stack, qp, qa, qb, qms, qi, qs, p, depth, ply, 
                      alpha, beta, a0, nb, nbm, i, sc, e, lo, hi, ms >>

searcher == s0 \/ s1 \/ s2 \/ s3

c0 == /\ pc["c"] = "c0"
      /\ ClockMode /\ armed /\ ~expired
      /\ expired' = TRUE
      /\ pc' = [pc EXCEPT !["c"] = "c0"]
      /\ UNCHANGED << ev, ord, tt, hist, armed, ret, retMove, nodes, after, 
                      polls, firstTrue, best, bestMove, round, done, curD, 
                      completed, stack, qp, qa, qb, qms, qi, qs, p, depth, ply, 
                      alpha, beta, a0, nb, nbm, i, sc, e, lo, hi, ms >>

clock == c0

Next == searcher \/ clock
           \/ (\E self \in ProcSet:  \/ quiesce(self) \/ negamax(self)
                                     \/ find_best_move(self))

Spec == Init /\ [][Next]_vars

\* END TRANSLATION

(* ---------------------------------------------------------------- properties *)
RepStack == Append(GameHist, Root)
ClaimTrue(entry, q) == entry.depth >= 0 =>
   LET v == MM(ev, q, entry.depth, q = Root)  s == Cls(entry.score)
   IN CASE entry.bound = "E" -> v = s
        [] entry.bound = "L" -> v >= s
        [] entry.bound = "U" -> v <= s
\* C05 / C06: every cached entry is a true claim about the minimax value at the entry's depth
TTSound == \A q \in Pos : ClaimTrue(tt[q], q)

RootMoves == {Moves[Root][j] : j \in 1..Len(Moves[Root])}
\* C05 / C06 / C09: the completed search reports the minimax value (third occurrences valued 0) and
\* a move that attains it
ResultIsMinimax ==
   done => /\ completed = D
           /\ Cls(best) = MM(ev, Root, D, TRUE)
           /\ (Moves[Root] # <<>>) => /\ bestMove \in RootMoves
                                      /\ Cls(-MM(ev, bestMove, D - 1, FALSE)) = MM(ev, Root, D, TRUE)
\* C06: the record of the game history is exactly as it was
NothingLeftBehind == (pc["s"] \in {"s0", "s1", "s2", "s3"}) => hist = GameHist
\* C07: after the deadline only a bounded number of further nodes is entered
PromptBound == IF ClockMode THEN 2 ELSE 1
Prompt == after <= PromptBound
\* C03: whenever find_best_move has returned and the position has a move, a move was returned
AlwaysAMove == (pc["s"] \in {"s1", "s3"} /\ Moves[Root] # <<>>) => bestMove \in RootMoves

Mated(q) == Moves[q] = <<>> /\ Chk[q]
M1 == {c \in RootMoves : Mated(c)}
AllowsM1(c) == \E j \in 1..Len(Moves[c]) : Mated(Moves[c][j])
\* C08
MateInOnePlayed == (done /\ Aborts = 0 /\ M1 # {}) => bestMove \in M1
\* (C08 speaks about a fresh engine; with a game history C09 takes precedence: a move that brings about a third
\* occurrence is valued as a draw whatever the position allows - found by TLC on the random graph family, seed 3:
\* the repeated position allows mate in one and the draw score still wins.  Such moves are excluded here.)
NoAvoidableMateAllowed ==
   (done /\ Aborts = 0 /\ D \in 2..3 /\ M1 = {} /\ (\E c \in RootMoves : ~AllowsM1(c))
         /\ ~\E c \in RootMoves : AllowsM1(c) /\ RepDraw(RepStack, c)) => ~AllowsM1(bestMove)

\* Liveness (C03 / C07 at the design level): under weak fairness of the searcher's steps every go is eventually
\* answered - each search, interrupted or not, returns - whatever the clock process does.  (Checked with
\* SPECIFICATION FairSpec and no state constraint; mc/Search_live.cfg.)
SearcherStep == searcher \/ quiesce("s") \/ negamax("s") \/ find_best_move("s")
FairSpec == Spec /\ WF_vars(SearcherStep)
EveryGoAnswered == <>done
\* ... and an armed search whose clock has expired is over after finitely many further steps
ExpiredSearchEnds == [](expired => <>(~armed))

\* observation for the interruption-point argument (printed once per finished behaviour of round 1)
FirstTruePolls == (pc["s"] = "s1" /\ round = 0) => PrintT(<<"FTP", firstTrue>>)
=============================================================================
