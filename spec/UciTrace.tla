------------------------------- MODULE UciTrace -------------------------------
(***************************************************************************)
(* Trace specification for the protocol layer (C03, C04, C09, C13, C16).   *)
(* A trace is a sequence of engine runs.  Events:                          *)
(*   start  a fresh engine (process, or Flounder::new() in the harness)    *)
(*   cmd    one command line with its abstract content (as printed by      *)
(*          UciGen) and what the engine answered: tokenised output lines,  *)
(*          optionally (hook level) the projected board afterwards and the *)
(*          repetition answers for every legal move                        *)
(*   end    how the run ended: exit status, or still alive / crashed       *)
(* Every event is matched with the action of Uci.tla it claims to be; the  *)
(* named sub-checks carry the property they belong to.                     *)
(***************************************************************************)
EXTENDS Uci, Json, IOUtils

Rec == ndJsonDeserialize(IOEnv.TRACE)
StuckAt == IF "STUCK" \in DOMAIN IOEnv THEN atoi(IOEnv.STUCK) ELSE 0

VARIABLES l,
          norm,    \* C13: command texts since the engine was fresh (process start / ucinewgame)
          pure,    \* C13: no time-limited search since then (output must be a function of norm)
          memo     \* C13: set of <<norm history ending in a go, output>> seen in this trace
tvars == <<alive, exit, board, hist, epoch, out, l, norm, pure, memo>>

TInit == UInit /\ l = 1 /\ norm = <<>> /\ pure = TRUE /\ memo = {}
IsEvent(e) == l <= Len(Rec) /\ Rec[l].ev = e /\ l' = l + 1
Has(e, f) == f \in DOMAIN e
Lines(e) == e.out

TStart == /\ IsEvent("start")
          /\ alive' = TRUE /\ exit' = -1 /\ board' = StartPos /\ hist' = <<StartPos>>
          /\ epoch' = epoch + 1 /\ out' = <<>>
          /\ norm' = <<>> /\ pure' = TRUE /\ UNCHANGED memo

CmdKind(e) == e.kind
NoCrash(e) == ~(Has(e, "crashed") /\ e.crashed)

(* -------- uci / isready / unknown -------- *)
HandshakeChecks(e) == [C16_survives |-> NoCrash(e), C16_handshake |-> IsHandshake(Lines(e))]
ReadyChecks(e) == [C16_survives |-> NoCrash(e), C16_readyok |-> IsReadyOk(Lines(e))]
UnknownChecks(e) == [C16_survives |-> NoCrash(e), C16_unknown_ignored |-> Silent(Lines(e))]

(* -------- position -------- *)
MovesOf(p, texts) == \* resolve UCI texts against the specification's legal moves
  LET RECURSIVE Res(_, _, _)
      Res(q, i, acc) == IF i > Len(texts) THEN acc
                        ELSE LET ms == {m \in Legal(q) : Uci(m) = texts[i]}
                             IN IF ms = {} THEN acc   \* (cannot happen for scripts printed by UciGen)
                                ELSE LET m == CHOOSE x \in ms : TRUE IN Res(Apply(q, m), i + 1, Append(acc, m))
  IN Res(p, 1, <<>>)
StartOf(e) == IF e.sp THEN StartPos ELSE FromJson(e.start)
GameOf(e) == GameFrom(StartOf(e), MovesOf(StartOf(e), e.moves))
Final(e) == LET g == GameOf(e) IN g[Len(g)]

RepChecks(e, g) ==   \* C09: the repetition answer for every legal move, against the game history g
  LET p == g[Len(g)]
      Occ(q) == Cardinality({i \in 1..Len(g) : g[i] = q})
  IN /\ {x[1] : x \in SeqToSet(e.rep)} = LegalTexts(p)
     /\ \A x \in SeqToSet(e.rep) :
          LET m == CHOOSE y \in Legal(p) : Uci(y) = x[1] IN x[2] = (Occ(Apply(p, m)) >= 2)
\* C09 on the REAL search: every successor the depth-1 search entered (event sink).  A third occurrence is valued as a draw -
\* score zero, nothing searched below it; a position seen fewer than twice does not return through the repetition rule.
SeenChecks(e, g) ==
  LET p == g[Len(g)]
      Occ(q) == Cardinality({i \in 1..Len(g) : g[i] = q})
  IN \A x \in SeqToSet(e.seen) :
       /\ x[1] \in LegalTexts(p)
       /\ LET m == CHOOSE y \in Legal(p) : Uci(y) = x[1]  d == Occ(Apply(p, m)) >= 2
          IN (d => (x[3] = 0 /\ ~x[4])) /\ (~d => ~x[2])
\* ... and one ply deeper (depth-2 search): the nodes entered at ply 2, reached by the two moves x[1], x[2]
Seen2Checks(e, g) ==
  LET p == g[Len(g)]
      Occ(q) == Cardinality({i \in 1..Len(g) : g[i] = q})
  IN \A x \in SeqToSet(e.seen2) :
       /\ x[1] \in LegalTexts(p)
       /\ LET m1 == CHOOSE y \in Legal(p) : Uci(y) = x[1]  p1 == Apply(p, m1)
          IN /\ x[2] \in LegalTexts(p1)
             /\ LET m2 == CHOOSE y \in Legal(p1) : Uci(y) = x[2]  d == Occ(Apply(p1, m2)) >= 2
                IN (d => (x[3] /\ x[4] = 0 /\ ~x[5])) /\ (~d => ~x[3])
\* ... and at ANY ply of a depth-5 search: the nodes whose position is a position of the game, or that returned through the rule
SeenNChecks(e, g) ==
  LET Occ(q) == Cardinality({i \in 1..Len(g) : g[i] = q})
  IN \A x \in SeqToSet(e.seenN) :
       LET d == Occ(FromJson(x[1])) >= 2 IN (d => (x[3] /\ x[4] = 0 /\ ~x[5])) /\ (~d => ~x[3])
PositionChecks(e) ==
  [C04_survives |-> NoCrash(e),
   C04_board    |-> Has(e, "board") => FromJson(e.board) = Final(e),
   C09_third_occurrence_is_draw |-> Has(e, "rep") => RepChecks(e, GameOf(e)),
   C09_search_values_third_occurrence_as_draw |-> Has(e, "seen") => SeenChecks(e, GameOf(e)),
   C09_search_values_third_occurrence_as_draw_at_ply_2 |-> Has(e, "seen2") => Seen2Checks(e, GameOf(e)),
   C09_search_values_third_occurrence_as_draw_at_any_ply |-> Has(e, "seenN") => SeenNChecks(e, GameOf(e)),
   H_script_is_legal |-> Len(MovesOf(StartOf(e), e.moves)) = Len(e.moves) /\ Valid(StartOf(e))]

(* -------- go -------- *)
TimeLimited(e) == e.go.movetime >= 0 \/ e.go.wtime >= 0 \/ e.go.btime >= 0 \/ e.go.winc >= 0 \/ e.go.binc >= 0
GoChecks(e) ==
  LET key == Append(norm, e.text)
  IN [C03_survives |-> NoCrash(e),
      C03_one_legal_bestmove |-> IsGoAnswer(Lines(e), board),
      C13_same_commands_same_answer |-> (pure /\ ~TimeLimited(e)) => \A x \in memo : x[1] = key => x[2] = Lines(e)]

\* The shape of the info lines of a depth-limited search as the code prints them today (src/timer.rs print_info,
\* src/search.rs find_best_move): one line per completed iteration, depths 1, 2, ..., node counts cumulative, the
\* principal move legal, and the last one equal to the bestmove.  No listed property prescribes this: a mismatch
\* is printed as DRIFT (no verdict).
InfoGrammar(e) ==
  LET o == Lines(e)
      infos == SelectSeq(o, LAMBDA x : x.t = "info")
      n == Len(infos)
      lt == LegalTexts(board)
  IN (~TimeLimited(e) /\ e.go.depth >= 1 /\ lt # {} /\ Len(o) >= 1 /\ o[Len(o)].t = "bestmove") =>
       /\ n = (IF e.go.depth > 64 THEN 64 ELSE e.go.depth)
       /\ \A i \in 1..n : /\ "depth" \in DOMAIN infos[i] /\ infos[i].depth = i
                          /\ "nodes" \in DOMAIN infos[i] /\ infos[i].nodes >= 1
                          /\ "score" \in DOMAIN infos[i]
                          /\ ("pv" \in DOMAIN infos[i] /\ infos[i].pv # <<>>) => infos[i].pv[1] \in lt
       /\ \A i \in 1..(n - 1) : infos[i].nodes <= infos[i + 1].nodes
       /\ (n >= 1 /\ "pv" \in DOMAIN infos[n] /\ infos[n].pv # <<>>) => infos[n].pv[1] = o[Len(o)].move

ChecksOf(e) == CASE CmdKind(e) = "uci" -> HandshakeChecks(e)
                 [] CmdKind(e) = "isready" -> ReadyChecks(e)
                 [] CmdKind(e) = "unknown" -> UnknownChecks(e)
                 [] CmdKind(e) = "ucinewgame" -> [C16_survives |-> NoCrash(e)]
                 [] CmdKind(e) = "position" -> PositionChecks(e)
                 [] CmdKind(e) = "go" -> GoChecks(e)
                 [] OTHER -> [H_known_command_kind |-> FALSE]
AllTrue(c) == \A k \in DOMAIN c : c[k]

TCmd == /\ IsEvent("cmd")
        /\ LET e == Rec[l] IN
           /\ AllTrue(ChecksOf(e))
           /\ CASE CmdKind(e) = "uci" -> CmdUci(Lines(e)) /\ UNCHANGED <<pure, memo>>
                [] CmdKind(e) = "isready" -> CmdIsReady(Lines(e)) /\ UNCHANGED <<pure, memo>>
                [] CmdKind(e) = "unknown" -> CmdUnknown(Lines(e)) /\ UNCHANGED <<pure, memo>>
                [] CmdKind(e) = "ucinewgame" -> CmdNewGame(Lines(e)) /\ pure' = TRUE /\ UNCHANGED memo
                [] CmdKind(e) = "position" -> CmdPosition(StartOf(e), MovesOf(StartOf(e), e.moves), Lines(e)) /\ UNCHANGED <<pure, memo>>
                [] CmdKind(e) = "go" -> /\ CmdGo(Lines(e))
                                     /\ (IF InfoGrammar(e) THEN TRUE ELSE PrintT(<<"DRIFT", l, "info lines", e.text>>))
                                     /\ pure' = (pure /\ ~TimeLimited(e))
                                     /\ memo' = IF pure /\ ~TimeLimited(e) THEN memo \cup {<<Append(norm, e.text), Lines(e)>>} ELSE memo
           /\ norm' = IF CmdKind(e) = "ucinewgame" THEN <<>> ELSE Append(norm, e.text)

(* -------- end of a run -------- *)
EndChecks(e) == [C16_exit_status_zero |-> e.exit = 0]
TEnd == /\ IsEvent("end")
        /\ AllTrue(EndChecks(Rec[l]))
        /\ (IF Rec[l].how = "quit" THEN CmdQuit ELSE Eof)
        /\ UNCHANGED <<norm, pure, memo>>

TNext == TStart \/ TCmd \/ TEnd
TSpec == TInit /\ [][TNext]_tvars

Inv == UciTypeOK /\ BoardValid /\ ExitsCleanly

Diag == (l = StuckAt /\ l <= Len(Rec)) =>
          PrintT(<<"DIAG", l, Rec[l].ev,
                   CASE Rec[l].ev = "cmd" -> ChecksOf(Rec[l])
                     [] Rec[l].ev = "end" -> EndChecks(Rec[l])
                     [] OTHER -> <<"no action allows", Rec[l].ev>>,
                   ToFEN4(board), IF Rec[l].ev = "cmd" THEN Rec[l].text ELSE "">>)
Accepted == LET d == TLCGet("stats").diameter
            IN IF d = Len(Rec) + 1 THEN TRUE ELSE Print(<<"REJECTED", d>>, FALSE)
=============================================================================
