----------------------------- MODULE PoisonTrace -----------------------------
(***************************************************************************)
(* C03, implementation -> specification: "whatever it searched earlier".   *)
(* The harness searches P on a fresh Searcher and lists the table entries  *)
(* whose key is the hash of no position that search entered ("orph").  For *)
(* such a key it looks for a real position Q with exactly that hash among  *)
(* the look-alikes of the searched positions and asks the same Searcher    *)
(* for its move in Q ("poison").  Decided here from ChessRules: if Q is a  *)
(* valid position the answer must be one of its legal moves ("0000"        *)
(* exactly when it has none).  An orphan for which no Q was found is a     *)
(* deviation from Search.tla (the table is written under the position of   *)
(* the node that stores) and is reported as drift by the runner.           *)
(***************************************************************************)
EXTENDS ChessRules, Json, IOUtils

Rec == ndJsonDeserialize(IOEnv.TRACE)
StuckAt == IF "STUCK" \in DOMAIN IOEnv THEN atoi(IOEnv.STUCK) ELSE 0
VARIABLES l, judged, skipped
vars == <<l, judged, skipped>>
TInit == l = 1 /\ judged = 0 /\ skipped = 0
IsEvent(x) == l <= Len(Rec) /\ Rec[l].ev = x /\ l' = l + 1

Texts(p) == {Uci(m) : m \in Legal(p)}
PoisonChecks(e, p) ==
  IF "panic" \in DOMAIN e THEN [C03_search_survives |-> FALSE]
  ELSE [C03_bestmove_is_legal_in_the_position_last_set |-> IF Texts(p) = {} THEN e.mv = "0000" ELSE e.mv \in Texts(p)]
TOrph == IsEvent("orph") /\ UNCHANGED <<judged, skipped>>
TPoison == /\ IsEvent("poison")
           /\ LET p == FromJson(Rec[l].pos) IN
              IF Valid(p) THEN (LET c == PoisonChecks(Rec[l], p) IN \A k \in DOMAIN c : c[k]) /\ judged' = judged + 1 /\ UNCHANGED skipped
              ELSE skipped' = skipped + 1 /\ UNCHANGED judged
TNext == TOrph \/ TPoison
TSpec == TInit /\ [][TNext]_vars

Diag == (l = StuckAt /\ l <= Len(Rec)) =>
          LET e == Rec[l] IN
          PrintT(<<"DIAG", l, e.ev, IF e.ev = "poison" THEN <<e.first, e.d1, e.fen, e.d2, IF "mv" \in DOMAIN e THEN e.mv ELSE "panic",
                                                            PoisonChecks(e, FromJson(e.pos)), "legal", Texts(FromJson(e.pos))>>
                                    ELSE <<"no action allows", e.ev>> >>)
Counts == (l = Len(Rec) + 1) => PrintT(<<"JUDGED", judged, skipped>>)
Accepted == LET d == TLCGet("stats").diameter
            IN IF d = Len(Rec) + 1 THEN TRUE ELSE Print(<<"REJECTED", d>>, FALSE)
=============================================================================
