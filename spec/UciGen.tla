-------------------------------- MODULE UciGen --------------------------------
(***************************************************************************)
(* Behaviours of Uci.tla as command scripts (specification -> impl).       *)
(* Run with TLC -simulate: every step takes one action of Uci.tla with a   *)
(* canonical admissible output, and prints the command line (text produced *)
(* by the specification: ToFEN6, Uci) together with its abstract content.  *)
(* The runner feeds the text to the real engine and records what it        *)
(* answers; UciTrace.tla then validates the recorded answers.              *)
(*                                                                         *)
(* Profile selects the command mix:                                        *)
(*   "handshake"   uci / isready / ucinewgame / unknown / blank lines mixed *)
(*                 with position and shallow go, ending by quit or EOF     *)
(*   "go"          positions of all kinds (incl. mate, stalemate) and go   *)
(*                 with depth, movetime, clocks in every token order       *)
(*   "position"    position commands: FENs with large counters, long move  *)
(*                 lists, several in a row                                 *)
(*   "determinism" depth-limited searches only (C13)                       *)
(*   "repetition"  games that shuffle back into earlier positions (C09)    *)
(*   "pressure"    one game, deep searches, no ucinewgame: a large table    *)
(*   "heavy"       the same with a depth-8 search first (> 2^18 entries)      *)
(*   "huge"        a pawn endgame searched to depth 17 (> 2^20 entries)      *)
(***************************************************************************)
EXTENDS Uci, Json, IOUtils

CONSTANTS Profile, MaxCmds

Seeds == ndJsonDeserialize(IOEnv.SEEDS)
SeedPos == {FromJson(Seeds[i].pos) : i \in 1..Len(Seeds)}

VARIABLES game,   \* [sp: startpos?, start, hm, fm, ms: moves played] of the last position command
          n,      \* commands issued so far
          last,   \* record describing the command just issued (printed when the state is expanded)
          nextw,  \* kind of the next command (drawn one step ahead, so that it is drawn exactly once)
          older   \* the game of the position command BEFORE the current one (re-sent by "again": A, B, A)
gvars == <<alive, exit, board, hist, epoch, out, game, n, last, nextw, older>>

StartGame == [sp |-> TRUE, start |-> StartPos, hm |-> 0, fm |-> 1, ms |-> <<>>]
GInit == UInit /\ game = StartGame /\ n = 0 /\ last = [k |-> "none"] /\ nextw = "none" /\ older = StartGame

(* ---------------- text ---------------- *)
RECURSIVE JoinMoves(_)
JoinMoves(ms) == IF ms = <<>> THEN "" ELSE " " \o Uci(Head(ms)) \o JoinMoves(Tail(ms))
PositionText(g) == "position " \o (IF g.sp THEN "startpos" ELSE "fen " \o ToFEN6(g.start, g.hm, g.fm))
                   \o (IF g.ms = <<>> THEN "" ELSE " moves" \o JoinMoves(g.ms))
CrSeq(cr) == SelectSeq(<<"K", "Q", "k", "q">>, LAMBDA r : r \in cr)
PosToJson(p) == [bd |-> [i \in 1..64 |-> p.bd[i - 1]], stm |-> p.stm, cr |-> CrSeq(p.cr), ep |-> p.ep]
MoveTexts(ms) == [i \in 1..Len(ms) |-> Uci(ms[i])]

\* go parameters: -1 = token absent
GoRec(d, mt, wt, bt, wi, bi, order) == [depth |-> d, movetime |-> mt, wtime |-> wt, btime |-> bt, winc |-> wi, binc |-> bi, order |-> order]
TokText(name, v) == IF v < 0 THEN "" ELSE " " \o name \o " " \o ToString(v)
ValOf(g, name) == CASE name = "wtime" -> g.wtime [] name = "btime" -> g.btime [] name = "winc" -> g.winc [] name = "binc" -> g.binc
RECURSIVE ClockText(_, _)
ClockText(g, ord) == IF ord = <<>> THEN "" ELSE TokText(Head(ord), ValOf(g, Head(ord))) \o ClockText(g, Tail(ord))
\* the engine's parser skips eight tokens after the first clock token, so depth / movetime are
\* written BEFORE the clock tokens (a token order the parser honours)
GoText(g) == "go" \o TokText("depth", g.depth) \o TokText("movetime", g.movetime) \o ClockText(g, g.order)

ClockOrders == {<<"wtime","btime","winc","binc">>, <<"btime","wtime","binc","winc">>, <<"winc","binc","wtime","btime">>,
                <<"binc","wtime","winc","btime">>, <<"wtime","winc","btime","binc">>, <<"btime","binc","winc","wtime">>}
Clocks == {0, 1, 100, 4000, 5000, 5001, 5100, 6000, 10000}
Incs == {0, 100, 3000}
UnknownLines == {"", "   ", "xyzzy", "UCI", "Isready", "stop", "setoption name Hash value 16", "debug on", "ponderhit",
                 "go2 depth 1", "position", "register later", "QUIT", "exit", "isready?", "bestmove e2e4",
                 \* lines that begin like a known command but are truncated or malformed (nothing the engine could act on)
                 "position fen", "position fen 8/8/8/8/8/8/8/8 w - -", "position fen rnbqkbnr/pppppppp/8/8/8/8/PPPPPPPP/RNBQKBNR w KQkq - 0",
                 "position xyz", "position moves e2e4", "setoption", "setoption name", "setoption name Hash value", "ucinewgame2",
                 \* lines that are not valid UTF-8 (the runner turns \xNN into the raw byte), tabs, very long lines
                 "foo \\xff\\xfe bar", "\\xc3\\x28", "caf\\xe9 isready", "\\x80uci", "\tisready?\t", "uci\\x00x",
                 "xxxxxxxxxxxxxxxxxxxxxxxxxxxxxxxxxxxxxxxxxxxxxxxxxxxxxxxxxxxxxxxxxxxxxxxxxxxxxxxxxxxxxxxxxxxxxxxxxxxxxxxxxxxxxxxxxxxxxxxxxxxxxxxxxxxxxxxx"}

(* ---------------- steps ---------------- *)
Emit(rec) == last' = rec @@ [k |-> "C", n |-> n + 1, profile |-> Profile]
Step == n' = n + 1

GenUci == /\ CmdUci(<<[t |-> "id"], [t |-> "uciok"]>>)
          /\ Emit([kind |-> "uci", text |-> "uci"]) /\ Step /\ UNCHANGED <<game, older>>
GenIsReady == /\ CmdIsReady(<<[t |-> "readyok"]>>)
              /\ Emit([kind |-> "isready", text |-> "isready"]) /\ Step /\ UNCHANGED <<game, older>>
\* (the abandoned game becomes `older`: "again" / "againx" right after ucinewgame send it again, unchanged or
\* extended - nothing the engine remembers about the abandoned game may be "continued"; seeded change C03d)
GenNewGame == /\ CmdNewGame(<<>>)
              /\ game' = StartGame /\ older' = game
              /\ Emit([kind |-> "ucinewgame", text |-> "ucinewgame"]) /\ Step
GenUnknown == /\ CmdUnknown(<<>>)
              /\ Emit([kind |-> "unknown", text |-> RandomElement(UnknownLines)]) /\ Step /\ UNCHANGED <<game, older>>

EmitPosition(g) == Emit([kind |-> "position", text |-> PositionText(g), sp |-> g.sp, start |-> PosToJson(g.start),
                         hm |-> g.hm, fm |-> g.fm, moves |-> MoveTexts(g.ms)])
SetGame(g) == /\ CmdPosition(g.start, g.ms, <<>>)
              /\ game' = g /\ older' = game /\ EmitPosition(g) /\ Step

HmSet == {0, 1, 49, 50, 99, 100, 149}
FmSet == {1, 2, 60, 255, 256, 300, 1000, 5949}
GenPositionStartpos == SetGame(StartGame)
GenPositionFen == IF Profile = "huge" THEN SetGame([sp |-> FALSE, start |-> RandomElement(SeedPos), hm |-> 0, fm |-> 1, ms |-> <<>>])
                  ELSE SetGame([sp |-> FALSE, start |-> RandomElement(SeedPos \cup {board}), hm |-> RandomElement(HmSet),
                                fm |-> RandomElement(FmSet), ms |-> <<>>])
\* extend the current game by up to k random legal moves (as a GUI re-sends the growing list)
\* Half of the moves of a generated game are drawn from the moves that ARE special or only LOOK special in their text or on
\* the board: anything arriving on the en-passant square (the capture itself, and a piece that merely lands there), anything
\* played from e1 / e8 to the c or g file (castling, and a rook or queen playing e1g1), promotions, and double pushes (they
\* create the en-passant squares).  A handler that classifies moves from their text or from a board pattern is wrong exactly there.
Tricky(p) == {m \in Legal(p) : \/ m.to = p.ep
                               \/ (m.from \in {4, 60} /\ m.to \in {2, 6, 58, 62})
                               \/ IsPromotion(m)
                               \/ (Kind(p.bd[m.from]) = P /\ (m.to - m.from = 16 \/ m.from - m.to = 16))}
PickMove(p) == LET t == Tricky(p) IN IF t # {} /\ RandomElement({TRUE, FALSE}) THEN RandomElement(t) ELSE RandomElement(Legal(p))
RECURSIVE Extend(_, _, _)
Extend(p, ms, k) == IF k = 0 \/ Legal(p) = {} THEN ms
                    ELSE LET m == PickMove(p) IN Extend(Apply(p, m), Append(ms, m), k - 1)
GenPositionExtend == LET k == RandomElement(IF Profile = "position" THEN {1, 2, 3, 8, 20} ELSE {1, 2, 3})
                     IN SetGame([game EXCEPT !.ms = Extend(board, game.ms, k)])
\* prefer a move that brings back a position already in the game (repetition histories)
GenPositionShuffle ==
  LET back == {m \in Legal(board) : \E i \in 1..Len(hist) : hist[i] = Apply(board, m)}
  IN IF back = {} THEN GenPositionExtend
     ELSE SetGame([game EXCEPT !.ms = Append(game.ms, RandomElement(back))])

EmitGo(g) == Emit([kind |-> "go", text |-> GoText(g), go |-> [x \in DOMAIN g \ {"order"} |-> g[x]]])
CanonicalAnswer == <<[t |-> "bestmove", move |-> IF Legal(board) = {} THEN "0000" ELSE Uci(CHOOSE m \in Legal(board) : TRUE)]>>
DoGo(g) == CmdGo(CanonicalAnswer) /\ EmitGo(g) /\ Step /\ UNCHANGED <<game, older>>
NoOrder == <<>>
GenGoDepth == DoGo(GoRec(RandomElement(IF Profile = "determinism" THEN 1..4 ELSE IF Profile = "pressure" THEN {6, 7}
                                      ELSE IF Profile = "heavy" THEN (IF n <= 3 THEN {8} ELSE {7})
                                      ELSE IF Profile = "huge" THEN {17} ELSE 0..3),
                        -1, -1, -1, -1, -1, NoOrder))
GenGoDepth2 == DoGo(GoRec(RandomElement({2, 3}), -1, -1, -1, -1, -1, NoOrder))
GenGoMovetime == DoGo(GoRec(-1, RandomElement({0, 1, 5, 50}), -1, -1, -1, -1, NoOrder))
\* ("whatever the depth limit": depth 0, and depths at and beyond the engine's internal limits - only together with a move time)
GenGoDepthMovetime == DoGo(GoRec(RandomElement(0..6 \cup {63, 64, 65, 100, 255, 256, 1000}), RandomElement({0, 1, 5, 50}), -1, -1, -1, -1, NoOrder))
GenGoClock == LET full == RandomElement({TRUE, TRUE, FALSE})
              IN DoGo(GoRec(-1, -1, RandomElement(Clocks), RandomElement(Clocks),
                            IF full THEN RandomElement(Incs) ELSE -1, IF full THEN RandomElement(Incs) ELSE -1,
                            RandomElement(ClockOrders)))

\* one reversible move each, then both taken back: the position before the cycle occurs again
Reversible(p) == {m \in Legal(p) : Kind(p.bd[m.from]) # P /\ p.bd[m.to] = 0 /\ ~IsCastle(p, m)}
BackOf(m) == Mv(m.to, m.from, 0)
\* (total: falls back to a plain extension when no such cycle is found at the first draw)
CycleFrom(p) ==
  LET r1 == Reversible(p)
  IN IF r1 = {} THEN <<>>
     ELSE LET m1 == RandomElement(r1)  p1 == Apply(p, m1)  r2 == Reversible(p1)
          IN IF r2 = {} THEN <<>>
             ELSE LET m2 == RandomElement(r2)  p2 == Apply(p1, m2)
                  IN IF BackOf(m1) \in Legal(p2) /\ BackOf(m2) \in Legal(Apply(p2, BackOf(m1)))
                     THEN <<m1, m2, BackOf(m1), BackOf(m2)>> ELSE <<>>
GenPositionCycle == LET c == CycleFrom(board)
                    IN IF c = <<>> THEN GenPositionExtend ELSE SetGame([game EXCEPT !.ms = game.ms \o c])
\* LOOK-ALIKE positions (same placement and side to move, different castling rights or en-passant square)
\* are different positions: histories in which the look-alike has occurred, but the position itself
\* fewer than twice.  (a) a rook / king that still carries a castling right steps out and back, twice;
\* (b) a double pawn push (en-passant square set) followed by cycles that restore the placement.
RightsMovers(p) ==
  LET r == IF p.stm = "w" THEN 0 ELSE 7
      ks == IF p.stm = "w" THEN "K" ELSE "k"   qs == IF p.stm = "w" THEN "Q" ELSE "q"
      homes == (IF ks \in p.cr THEN {Sq(7, r), Sq(4, r)} ELSE {}) \cup (IF qs \in p.cr THEN {Sq(0, r), Sq(4, r)} ELSE {})
  IN {m \in Reversible(p) : m.from \in homes}
Prefer(a, b) == IF a # {} THEN a ELSE b
RCycleFrom(p) ==
  LET r1 == Prefer(RightsMovers(p), Reversible(p))
  IN IF r1 = {} THEN <<>>
     ELSE LET m1 == RandomElement(r1)  p1 == Apply(p, m1)  r2 == Prefer(RightsMovers(p1), Reversible(p1))
          IN IF r2 = {} THEN <<>>
             ELSE LET m2 == RandomElement(r2)  p2 == Apply(p1, m2)
                  IN IF BackOf(m1) \in Legal(p2) /\ BackOf(m2) \in Legal(Apply(p2, BackOf(m1)))
                     THEN <<m1, m2, BackOf(m1), BackOf(m2)>> ELSE <<>>
CastleSeeds == {q \in SeedPos : Cardinality(q.cr) >= 2}
\* the cycle twice, the second time without its last move: the next move would bring the look-alike
\* about for the SECOND time only (and a further cycle for the third time)
\* (values drawn with RandomElement are handed on as operator ARGUMENTS, which TLC evaluates once)
TwiceButLast(c, k) == c \o SubSeq(c, 1, k)
WithCycle(g0, c, pre) == IF c = <<>> THEN GenPositionExtend
                         ELSE SetGame([g0 EXCEPT !.ms = g0.ms \o pre \o TwiceButLast(c, RandomElement({2, 3, 4}))])
RCycleOn(g0, b0) == WithCycle(g0, RCycleFrom(b0), <<>>)
RCycleSeed(q) == RCycleOn([sp |-> FALSE, start |-> q, hm |-> 0, fm |-> 1, ms |-> <<>>], q)
GenPositionRCycle == IF board.cr = {} /\ CastleSeeds # {} THEN RCycleSeed(RandomElement(CastleSeeds)) ELSE RCycleOn(game, board)
DoublePushes(q) == {m \in Legal(q) : Kind(q.bd[m.from]) = P /\ (m.to - m.from = 16 \/ m.from - m.to = 16)}
EpCycleWith(m0) == WithCycle(game, CycleFrom(Apply(board, m0)), <<m0>>)
GenPositionEpCycle == IF DoublePushes(board) = {} THEN GenPositionExtend ELSE EpCycleWith(RandomElement(DoublePushes(board)))

\* OLD occurrences: a cycle played twice (its inner positions have then occurred twice), followed by 26 or 30 rounds of
\* another cycle from the same position - more than a hundred reversible plies later the first move of the first cycle
\* brings about a position for the third time whose earlier occurrences lie far back in the game (a repetition test that
\* only looks at a recent window, or stops at a fixed number of plies, is wrong exactly there)
RECURSIVE RepSeq(_, _)
RepSeq(c, k) == IF k = 0 THEN <<>> ELSE c \o RepSeq(c, k - 1)
OldWith(c1, c2, k) == IF c1 = <<>> \/ c2 = <<>> THEN GenPositionExtend
                      ELSE SetGame([game EXCEPT !.ms = game.ms \o c1 \o c1 \o RepSeq(c2, k)])
GenPositionOld == OldWith(CycleFrom(board), CycleFrom(board), RandomElement({26, 30}))

\* a FINISHED game: a seed position from which one move ends the game (mate or stalemate), with that move played.  PickFor then has it
\* searched (the answer is 0000), taken back one move, and searched again two or three plies deep: whatever the first search left behind
\* for the final position (a table entry without a move, a cached answer) lies on the principal line of the second
Enders(q) == {m \in Legal(q) : Legal(Apply(q, m)) = {}}
FinishedWith(q, m) == SetGame([sp |-> FALSE, start |-> q, hm |-> 0, fm |-> 1, ms |-> <<m>>])
FinishedFrom(q) == FinishedWith(q, RandomElement(Enders(q)))
GenPositionFinished == LET S == {q \in SeedPos : Enders(q) # {}} IN IF S = {} THEN GenPositionExtend ELSE FinishedFrom(RandomElement(S))

\* A, B, A: the game of the position command before the current one is sent again, unchanged or extended
\* (nothing of B may survive, and nothing may be "continued" from the first A)
FinalOf(g) == LET h == GameFrom(g.start, g.ms) IN h[Len(h)]
GenPositionAgain == SetGame(older)
GenPositionAgainExt == SetGame([older EXCEPT !.ms = Extend(FinalOf(older), older.ms, RandomElement({1, 2}))])
\* a LOOK-ALIKE of the current position as a new game: same placement and side to move, some castling rights
\* and / or the en-passant square dropped.  Whatever the engine remembers about the original (a cached best
\* move such as castling or an en-passant capture, a repetition count) must not be applied to the twin.
TwinOf(q) == [sp |-> FALSE, start |-> q, hm |-> RandomElement({0, 1, 7}), fm |-> RandomElement({1, 9}), ms |-> <<>>]
GenPositionTwin == LET tw == Weakenings(board) \ {board}
                   IN IF tw = {} THEN GenPositionExtend ELSE SetGame(TwinOf(RandomElement(tw)))

\* the same game one ply shorter (only the most recent position command counts)
GenPositionBack == IF game.ms = <<>> THEN GenPositionExtend
                   ELSE SetGame([game EXCEPT !.ms = SubSeq(game.ms, 1, Len(game.ms) - 1)])

GenQuit == CmdQuit /\ Emit([kind |-> "quit", text |-> "quit"]) /\ Step /\ UNCHANGED <<game, older>>
GenEof == Eof /\ Emit([kind |-> "eof", text |-> ""]) /\ Step /\ UNCHANGED <<game, older>>

\* The command kind is drawn FIRST (RandomElement), so that a simulation step evaluates one generator
\* only; generators that need something special fall back to a plain extension when it is unavailable.
Menu ==
  CASE Profile = "handshake" -> <<"uci", "isready", "isready", "newgame", "unknown", "unknown", "startpos", "extend", "godepth">>
    \* ("back": the game one ply shorter - after a search of a finished game, the position before its last move)
    [] Profile = "go" -> <<"fen", "fen", "startpos", "extend", "extend", "newgame", "godepth", "gomovetime", "godm", "goclock",
                           "goclock", "isready", "twin", "twin", "again", "againx", "godepth", "back", "godepth", "finished">>
    [] Profile = "position" -> <<"fen", "fen", "startpos", "extend", "extend", "extend", "shuffle", "newgame", "godepth",
                                 "again", "again", "againx", "twin">>
    [] Profile = "determinism" -> <<"fen", "startpos", "extend", "extend", "godepth", "godepth", "godepth", "twin", "again",
                                    "newgame", "againx">>
    \* one long game near the opening searched deeply after every few moves, never a ucinewgame: the table
    \* grows to several hundred thousand entries (C13: whatever depends on the random hash keys - slot
    \* collisions, replacement, eviction - shows only under this pressure)
    [] Profile = "pressure" -> <<"extend", "godepth", "godepth">>
    \* the same with one depth-8 search early on: more than a quarter of a million entries after the first go,
    \* beyond any plausible "bounded table" of 2^18 entries (seeded change C13d: eviction in hash-map order)
    [] Profile = "heavy" -> <<"extend", "godepth", "godepth">>
    \* one pawn endgame (the seed list of this profile holds nothing else) searched to depth 17: several million distinct
    \* positions, more than 2^20 table entries; the position command always comes first (PickFor)
    [] Profile = "huge" -> <<"godepth">>
    [] Profile = "repetition" -> <<"startpos", "fen", "extend", "shuffle", "shuffle", "cycle", "cycle", "cycle", "cycle", "back",
                                  "newgame", "rcycle", "rcycle", "epcycle", "again", "twin", "old">>
Do(w) == CASE w = "uci" -> GenUci [] w = "isready" -> GenIsReady [] w = "newgame" -> GenNewGame [] w = "unknown" -> GenUnknown
           [] w = "startpos" -> GenPositionStartpos [] w = "fen" -> GenPositionFen [] w = "extend" -> GenPositionExtend
           [] w = "shuffle" -> GenPositionShuffle [] w = "cycle" -> GenPositionCycle [] w = "back" -> GenPositionBack
           [] w = "rcycle" -> GenPositionRCycle [] w = "epcycle" -> GenPositionEpCycle [] w = "old" -> GenPositionOld
           [] w = "finished" -> GenPositionFinished
           [] w = "again" -> GenPositionAgain [] w = "againx" -> GenPositionAgainExt [] w = "twin" -> GenPositionTwin
           [] w = "godepth" -> GenGoDepth [] w = "godepth2" -> GenGoDepth2 [] w = "gomovetime" -> GenGoMovetime [] w = "godm" -> GenGoDepthMovetime
           [] w = "goclock" -> GenGoClock [] w = "quit" -> GenQuit [] w = "eof" -> GenEof
\* (after a very long game - "old" - the next position command starts a short one again: validating a 130-ply history costs
\*  TLC as much as a whole ordinary script, one per script is enough)
PickFor(k, g, lk) == LET m == IF k >= MaxCmds THEN <<"quit", "eof">>
                          ELSE IF Profile = "huge" THEN (IF g.sp THEN <<"fen">> ELSE <<"godepth">>)
                          \* a finished game (mate / stalemate on the board) is searched, then taken back one move and searched again
                          ELSE IF Profile = "go" /\ g.ms # <<>> /\ Legal(FinalOf(g)) = {} THEN (IF lk = "go" THEN <<"back">> ELSE <<"godepth">>)
                          \* ... and the position from which one move ends the game is searched two or three plies deep right after it was set
                          ELSE IF Profile = "go" /\ lk = "position" /\ (\E m \in Legal(FinalOf(g)) : Legal(Apply(FinalOf(g), m)) = {})
                               THEN <<"godepth2">>
                          ELSE IF Len(g.ms) > 60 THEN <<"startpos", "fen", "newgame", "twin", "isready">>
                          ELSE IF k >= (2 * MaxCmds) \div 3 THEN Menu \o <<"quit", "eof">> ELSE Menu
                 IN m[RandomElement(1..Len(m))]

PrintLast == last.k = "none" \/ PrintT(<<"@@", ToJson(last)>>)
GNext == /\ PrintLast
         /\ Assert(UciTypeOK /\ BoardValid /\ ExitsCleanly, "Uci.tla invariant violated")
         /\ alive
         /\ IF nextw = "none" THEN GenIsReady      \* (first step: the kind of command 1 was not drawn yet)
            ELSE Do(nextw)
         /\ nextw' = PickFor(n + 1, game', last'.kind)
GSpec == GInit /\ [][GNext]_gvars
=============================================================================
