------------------------------ MODULE HeurTrace ------------------------------
(***************************************************************************)
(* Trace validation of the real KillerMoves / HistoryTable /               *)
(* RepetitionTable against Heur.tla.  The harness applies random operation *)
(* histories to the real containers and logs, after every operation, the   *)
(* answers of the public queries (is_killer for every move id at the ply,  *)
(* get_score of the touched key and of a sample, len / is_repetition).     *)
(* Every event must be the corresponding action of Heur.tla and the logged *)
(* answers must equal the specification's.                                 *)
(* Mismatches are SPEC-DRIFT (these containers are not listed properties). *)
(***************************************************************************)
EXTENDS Heur, Json, IOUtils, TLC

Rec == ndJsonDeserialize(IOEnv.TRACE)
StuckAt == IF "STUCK" \in DOMAIN IOEnv THEN atoi(IOEnv.STUCK) ELSE 0
TMoves == 1..24          \* killer move ids; history keys are ids too (the harness maps from/to pairs to ids)
TMaxPly == 64
TCap == 2147483647
VARIABLE l
tvars == <<hvars, l>>
E == Rec[l]
Is(op) == l <= Len(Rec) /\ E.op = op /\ l' = l + 1 /\ steps' = steps

KillerAnswers(k, ply, ans) == \A m \in 1..Len(ans) : ans[m] = IsKiller(k, m, ply)
TKStore == /\ Is("kstore") /\ KStore(E.m, E.ply)
           /\ KillerAnswers(kill', E.ply, E.killers)
           /\ KillerAnswers(kill', E.other, E.killers_other)
TReset == /\ Is("reset") /\ kill' = [q \in 0..(MaxPly - 1) |-> <<>>] /\ hist' = [m \in Moves |-> 0] /\ rep' = <<>>
THRecord == /\ Is("hrec") /\ HRecord(E.key, E.d) /\ hist'[E.key] = E.score
THAge == /\ Is("hage") /\ HAge /\ \A j \in 1..Len(E.scores) : hist'[j] = E.scores[j]
TRPush == /\ Is("rpush") /\ RPush(E.x) /\ Len(rep') = E.len
TRPop == /\ Is("rpop") /\ RPop /\ Len(rep') = E.len
TRQuery == /\ Is("risrep") /\ UNCHANGED <<kill, hist, rep>> /\ E.ans = IsRepetition(rep, E.x)
TNext == TKStore \/ TReset \/ THRecord \/ THAge \/ TRPush \/ TRPop \/ TRQuery
TInit == HInit /\ l = 1
TSpec == TInit /\ [][TNext]_tvars

Diag == (StuckAt > 0 /\ l = StuckAt /\ l <= Len(Rec)) =>
          PrintT(<<"DIAG", l, E, "killers at ply", IF "ply" \in DOMAIN E /\ E.ply < MaxPly THEN kill[E.ply] ELSE <<>>,
                   "history", IF "key" \in DOMAIN E THEN hist[E.key] ELSE -1, "stack", rep>>)
Accepted == LET d == TLCGet("stats").diameter
            IN IF d = Len(Rec) + 1 THEN TRUE ELSE Print(<<"REJECTED", d>>, FALSE)
=============================================================================
