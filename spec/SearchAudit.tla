----------------------------- MODULE SearchAudit -----------------------------
(***************************************************************************)
(* C05 / C06, implementation -> specification.                             *)
(*                                                                         *)
(* One event per position: the game graph the search talks about (every    *)
(* position within D plies, the full quiescence graph under every horizon  *)
(* node; static evaluation and check flag per node) and what the REAL      *)
(* search concluded: score and move of completed fixed-depth searches from *)
(* a fresh engine, every transposition-table entry it left behind, and     *)
(* (C06) everything left behind / concluded after an interruption at each  *)
(* node count k followed by a completed search.                            *)
(*                                                                         *)
(* The reference is computed HERE, from the graph alone:                   *)
(*   QV(n)    the unpruned quiescence value: lost if mated, else the max   *)
(*            of stand-pat and -QV over every quiescence move              *)
(*   MM(n,e)  the depth-e minimax value with leaves valued by QV; mate =   *)
(*            lost, stalemate = 0 at e > 0                                 *)
(* Scores at or beyond the +-32767 window are compared as won / lost.      *)
(* A cached entry (n, e, s, bound) is a CLAIM about MM(n, e): Exact s =,   *)
(* Lower s <=, Upper s >=.  Every claim must be true.                      *)
(* When the event carries structural positions the graph itself is         *)
(* validated node by node against ChessRules (moves = Legal, children =    *)
(* Apply, quiescence moves = QMoves, check flag), so the reference does    *)
(* not lean on the engine's move generator.                                *)
(***************************************************************************)
EXTENDS ChessRules, Json, IOUtils

Rec == ndJsonDeserialize(IOEnv.TRACE)
StuckAt == IF "STUCK" \in DOMAIN IOEnv THEN atoi(IOEnv.STUCK) ELSE 0

INF == 32767
Cls(v) == IF v >= INF THEN INF ELSE IF v <= -INF THEN -INF ELSE v
SetMax(S) == CHOOSE x \in S : \A y \in S : x >= y
Undef == 99999999          \* value of a (node, depth) pair the graph does not cover

(* ---------------- reference values, bottom-up over the dumped graph ---------------- *)
\* quiescence values along the post-order given by the dump (children before parents)
RECURSIVE BuildQ(_, _, _)
BuildQ(g, i, acc) ==
  IF i > Len(g.qorder) THEN acc
  ELSE LET n == g.qorder[i]
           v == IF g.chk[n] /\ Len(g.kids[n]) = 0 THEN -INF
                ELSE SetMax({g.ev[n]} \cup {Cls(-acc[g.kids[n][g.qi[n][j]]]) : j \in 1..Len(g.qi[n])})
       IN BuildQ(g, i + 1, [acc EXCEPT ![n] = v])
QVals(g) == BuildQ(g, 1, [n \in 1..g.n |-> Undef])

\* one more ply of minimax on top of the layer `prev` (values at depth e-1)
RECURSIVE BuildLayer(_, _, _, _, _)
BuildLayer(g, e, prev, n, acc) ==
  IF n > g.n THEN acc
  ELSE LET v == IF g.full[n] < e THEN Undef
                ELSE IF Len(g.kids[n]) = 0 THEN (IF g.chk[n] THEN -INF ELSE 0)
                ELSE SetMax({Cls(-prev[g.kids[n][j]]) : j \in 1..Len(g.kids[n])})
       IN BuildLayer(g, e, prev, n + 1, Append(acc, v))
RECURSIVE Layers(_, _, _)
Layers(g, dmax, acc) == IF Len(acc) > dmax THEN acc
                        ELSE Layers(g, dmax, Append(acc, BuildLayer(g, Len(acc), acc[Len(acc)], 1, <<>>)))
\* MMTab(g)[e + 1][n] = MM(n, e)
RECURSIVE Layer0(_, _, _, _)
Layer0(g, q, n, acc) == IF n > g.n THEN acc ELSE Layer0(g, q, n + 1, Append(acc, IF g.qd[n] THEN q[n] ELSE Undef))
MMTab(g, dmax) == Layers(g, dmax, << Layer0(g, QVals(g), 1, <<>>) >>)
MM(tab, n, e) == tab[e + 1][n]

(* ---------------- claims ---------------- *)
ClaimTrue(tab, c) ==   \* c = <<node, depth, score, bound, ...>>
  LET n == c[1]  e == c[2]  s == Cls(c[3])  v == MM(tab, n, e)
  IN CASE c[4] = "E" -> v = s
       [] c[4] = "L" -> v >= s
       [] c[4] = "U" -> v <= s
ClaimCovered(g, tab, c) == c[1] >= 1 /\ c[1] <= g.n /\ c[2] + 1 <= Len(tab) /\ MM(tab, c[1], c[2]) # Undef

\* the move text -> child of the root
KidOf(g, n, text) == LET js == {j \in 1..Len(g.mv[n]) : g.mv[n][j] = text}
                     IN IF js = {} THEN 0 ELSE g.kids[n][CHOOSE j \in js : TRUE]
ResultTrue(g, tab, d, score, move) ==
  /\ Cls(score) = MM(tab, 1, d)
  /\ IF Len(g.kids[1]) = 0 THEN move = "-"
     ELSE LET k == KidOf(g, 1, move) IN k # 0 /\ Cls(-MM(tab, k, d - 1)) = MM(tab, 1, d)

(* ---------------- validation of the graph against the rules ---------------- *)
NodeValid(g, n) ==
  LET p == FromJson(g.pos[n])  lm == Legal(p)
  IN /\ SeqToSet(g.mv[n]) = {Uci(m) : m \in lm} /\ Len(g.mv[n]) = Cardinality(lm)
     /\ g.chk[n] = InCheck(p)
     /\ {g.mv[n][g.qi[n][j]] : j \in 1..Len(g.qi[n])} = {Uci(m) : m \in QMoves(p)}
     /\ \A j \in 1..Len(g.kids[n]) : g.kids[n][j] # 0 =>
           \E m \in lm : Uci(m) = g.mv[n][j] /\ Apply(p, m) = FromJson(g.pos[g.kids[n][j]])
GraphValid(e) == (~e.validated) \/ (\A n \in 1..e.g.n : NodeValid(e.g, n))

(* ---------------- the event ---------------- *)
\* (the reference table `tab` is a STATE VARIABLE computed one event ahead: a LET-bound table would be
\*  re-evaluated by TLC at every reference, i.e. once per audited claim)
ChecksWith(e, tab) ==
  LET g == e.g
      fr == e.fresh
  IN [H_graph_is_the_game_graph |-> GraphValid(e),
      H_claims_covered |-> /\ \A i \in 1..Len(fr) : \A j \in 1..Len(fr[i].entries) : ClaimCovered(g, tab, fr[i].entries[j])
                           /\ ("abort" \in DOMAIN e => \A j \in 1..Len(e.abort.claims) : ClaimCovered(g, tab, e.abort.claims[j])),
      C05_no_panic |-> \A i \in 1..Len(fr) : "panic" \notin DOMAIN fr[i],
      C05_value_is_minimax |-> \A i \in 1..Len(fr) : fr[i].deeper = 0 => Cls(fr[i].score) = MM(tab, 1, fr[i].d),
      C05_move_attains_value |-> \A i \in 1..Len(fr) : fr[i].deeper = 0 => ResultTrue(g, tab, fr[i].d, fr[i].score, fr[i].move),
      \* (a run that reused an entry cached by a DEEPER search is outside the property: the reference is ambiguous)
      C05_cached_claims_true |-> \A i \in 1..Len(fr) : fr[i].deeper = 0 => \A j \in 1..Len(fr[i].entries) : ClaimTrue(tab, fr[i].entries[j]),
      C06_no_panic |-> "abort" \in DOMAIN e => e.abort.panics = 0,
      C06_claims_after_interruption_true |-> "abort" \in DOMAIN e =>
                           \A j \in 1..Len(e.abort.claims) : ClaimTrue(tab, e.abort.claims[j]),
      C06_later_search_is_minimax |-> "abort" \in DOMAIN e =>
                           \A j \in 1..Len(e.abort.results) : ResultTrue(g, tab, e.abort.d, e.abort.results[j][1], e.abort.results[j][2]),
      C06_history_as_before |-> "abort" \in DOMAIN e =>
                           \A j \in 1..Len(e.abort.reps) : e.abort.reps[j][2] = e.abort.reps[j][1] /\ e.abort.reps[j][3] = e.abort.reps[j][1]]

\* witnesses for the diagnostic run: the first false claim / result with the reference value
FirstBadWith(e, tab) ==
  LET g == e.g
      badc == IF "abort" \in DOMAIN e THEN {j \in 1..Len(e.abort.claims) : ~ClaimTrue(tab, e.abort.claims[j])} ELSE {}
      badr == IF "abort" \in DOMAIN e THEN {j \in 1..Len(e.abort.results) : ~ResultTrue(g, tab, e.abort.d, e.abort.results[j][1], e.abort.results[j][2])} ELSE {}
      badf == {x \in UNION {{<<i, j>> : j \in 1..Len(e.fresh[i].entries)} : i \in {k \in 1..Len(e.fresh) : e.fresh[k].deeper = 0}} :
                  ~ClaimTrue(tab, e.fresh[x[1]].entries[x[2]])}
  IN [root_minimax |-> [d \in 0..e.d |-> MM(tab, 1, d)],
      bad_claim_after_abort |-> IF badc = {} THEN <<>> ELSE LET j == CHOOSE x \in badc : TRUE IN
                                  <<e.abort.claims[j], "node", g.fen[e.abort.claims[j][1]], "reference", MM(tab, e.abort.claims[j][1], e.abort.claims[j][2])>>,
      bad_result_after_abort |-> IF badr = {} THEN <<>> ELSE e.abort.results[CHOOSE x \in badr : TRUE],
      bad_fresh_claims |-> Cardinality(badf)]

VARIABLES l, skipped, reftab
vars == <<l, skipped, reftab>>
TabFor(i) == IF i <= Len(Rec) THEN MMTab(Rec[i].g, Rec[i].d) ELSE <<>>
TInit == l = 1 /\ skipped = 0 /\ reftab = TabFor(1)
IsEvent(x) == l <= Len(Rec) /\ Rec[l].ev = x /\ l' = l + 1

\* positions that are not Valid are outside the quantifier of the properties: skipped, counted
TGraph == /\ IsEvent("graph")
          /\ IF Valid(FromJson(Rec[l].root))
             THEN (LET c == ChecksWith(Rec[l], reftab) IN \A k \in DOMAIN c : c[k]) /\ UNCHANGED skipped
             ELSE skipped' = skipped + 1
          /\ reftab' = TabFor(l + 1)
TNext == TGraph
TSpec == TInit /\ [][TNext]_vars

Diag == (l = StuckAt /\ l <= Len(Rec)) =>
          PrintT(<<"DIAG", l, Rec[l].rootfen, ChecksWith(Rec[l], reftab), FirstBadWith(Rec[l], reftab)>>)
Skipped == (l = Len(Rec) + 1) => PrintT(<<"SKIPPED-NOT-VALID", skipped>>)
Accepted == LET d == TLCGet("stats").diameter
            IN IF d = Len(Rec) + 1 THEN TRUE ELSE Print(<<"REJECTED", d>>, FALSE)
=============================================================================
