----------------------------- MODULE GoParseTrace -----------------------------
(***************************************************************************)
(* What the real go parser handed to the search (hook verif_go_budget) for *)
(* token lines drawn by GoParse.tla, compared with GoParse!Parse.          *)
(* A panic of the parser is a C16 matter ("ignores what it does not        *)
(* understand without failure") and is reported as such; a different       *)
(* (depth, limit) is SPEC-DRIFT (printed, no verdict).                     *)
(***************************************************************************)
EXTENDS Integers, Sequences, FiniteSets, TLC, Json, IOUtils
Rec == ndJsonDeserialize(IOEnv.TRACE)
StuckAt == IF "STUCK" \in DOMAIN IOEnv THEN atoi(IOEnv.STUCK) ELSE 0
G == INSTANCE GoParse WITH line <- <<>>, stm <- "w"

VARIABLES l, side
vars == <<l, side>>
TInit == l = 1 /\ side = "w"
Has(e, f) == f \in DOMAIN e
IsEvent(x) == l <= Len(Rec) /\ Rec[l].ev = x /\ l' = l + 1
TSide == IsEvent("side") /\ Rec[l].stm = Rec[l].board_stm /\ side' = Rec[l].stm
GoChecks(e) == [C16_go_parser_survives |-> ~Has(e, "panic")]
TGo == /\ IsEvent("go")
       /\ \A k \in DOMAIN GoChecks(Rec[l]) : GoChecks(Rec[l])[k]
       /\ LET e == Rec[l]  m == G!Parse(e.toks, side)
          IN IF Has(e, "depth") /\ e.depth = m.depth /\ e.budget = m.limit THEN TRUE
             ELSE PrintT(<<"DRIFT", l, e.text, "model", m, "code", IF Has(e, "depth") THEN <<e.depth, e.budget>> ELSE <<>> >>)
       /\ UNCHANGED side
TNext == TSide \/ TGo
TSpec == TInit /\ [][TNext]_vars
Diag == (l = StuckAt /\ l <= Len(Rec)) => PrintT(<<"DIAG", l, Rec[l].ev, IF Rec[l].ev = "go" THEN GoChecks(Rec[l]) ELSE <<>>, Rec[l].text>>)
Accepted == LET d == TLCGet("stats").diameter
            IN IF d = Len(Rec) + 1 THEN TRUE ELSE Print(<<"REJECTED", d>>, FALSE)
=============================================================================
