------------------------------ MODULE EvalTrace ------------------------------
(***************************************************************************)
(* C14, implementation -> specification.  One "quad" event per position p: *)
(* the values the ONE evaluator returned for p, SwapSide(p), Mirror(p) and *)
(* p again, evaluated in a seeded random interleaving with all other       *)
(* positions of the batch.  The transforms are the specification's; the    *)
(* logged partner positions must equal them (H_ sub-checks guard the       *)
(* harness, they are tool errors, not verdicts).                           *)
(***************************************************************************)
EXTENDS Eval, EvalFn, Json, IOUtils

Rec == ndJsonDeserialize(IOEnv.TRACE)
StuckAt == IF "STUCK" \in DOMAIN IOEnv THEN atoi(IOEnv.STUCK) ELSE 0

VARIABLES l, memo     \* memo: set of <<position, value>> seen so far (purity across the whole trace)
vars == <<l, memo>>
TInit == l = 1 /\ memo = {}
IsEvent(e) == l <= Len(Rec) /\ Rec[l].ev = e /\ l' = l + 1

QuadChecks(e) ==
  LET p == FromJson(e.pos)
  IN [H_swap_transform   |-> FromJson(e.swap) = SwapSide(p),
      H_mirror_transform |-> FromJson(e.mirror) = Mirror(p),
      C14_antisymmetric  |-> Antisym(e.v, e.vswap),
      C14_mirror_invariant |-> MirrorInv(e.v, e.vmirror),
      C14_bounded        |-> Bounded(e.v) /\ Bounded(e.vswap) /\ Bounded(e.vmirror),
      C14_pure_repeat    |-> Pure(e.v, e.vagain),
      \* the score depends on the piece placement and the side to move only: not on what was evaluated before,
      \* and not on castling rights, en-passant square or move counters (companion events carry the same
      \* placement with the rights / e.p. square dropped and other counters)
      C14_pure_history   |-> \A x \in memo : (x[1].bd = p.bd /\ x[1].stm = p.stm) => x[2] = e.v]

\* the property quantifies over valid positions: others are skipped (printed, counted by the runner)
TQuad == /\ IsEvent("quad")
         /\ IF Valid(FromJson(Rec[l].pos))
            THEN \A k \in DOMAIN QuadChecks(Rec[l]) : QuadChecks(Rec[l])[k]
            ELSE PrintT(<<"SKIPPED-NOT-VALID", l>>)
         \* the numbers themselves (EvalFn.tla, a transcription of src/eval.rs): a difference is DRIFT, not a verdict
         /\ LET p == FromJson(Rec[l].pos)  m == EvalModel(p.bd, p.stm)
            IN IF Rec[l].v = m THEN TRUE ELSE PrintT(<<"DRIFT", l, ToFEN4(p), "engine", Rec[l].v, "EvalFn", m>>)
         /\ memo' = memo \cup {<<FromJson(Rec[l].pos), Rec[l].v>>}
TNew == IsEvent("new") /\ memo' = {}       \* a new Evaluator
TNext == TQuad \/ TNew
TSpec == TInit /\ [][TNext]_vars

Diag == (l = StuckAt /\ l <= Len(Rec)) =>
          PrintT(<<"DIAG", l, Rec[l].ev, IF Rec[l].ev = "quad" THEN QuadChecks(Rec[l]) ELSE <<"no action allows", Rec[l].ev>>,
                   IF Rec[l].ev = "quad" THEN ToFEN4(FromJson(Rec[l].pos)) ELSE "">>)
Accepted == LET d == TLCGet("stats").diameter
            IN IF d = Len(Rec) + 1 THEN TRUE ELSE Print(<<"REJECTED", d>>, FALSE)
=============================================================================
