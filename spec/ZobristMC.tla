------------------------------ MODULE ZobristMC ------------------------------
(* Model-checks the feature map of Zobrist.tla over the positions explored by Chess.tla:
   every single-component perturbation of every explored position has a different feature set
   (so a hash that XORs independent keys per feature separates them). *)
EXTENDS Chess, Zobrist
FeatInj == FeaturesSeparate(pos)
\* counters are not part of the position record at all: the hash is a function of [bd, stm, cr, ep]
=============================================================================
