-------------------------------- MODULE Heur --------------------------------
(***************************************************************************)
(* The three small containers the search keeps besides the transposition   *)
(* table: killer moves (src/killer_moves.rs), the history heuristic        *)
(* (src/history.rs) and the repetition stack (src/repetition.rs).          *)
(*                                                                         *)
(* None of them is a listed property on its own; they are the state behind *)
(* C05 (ordering heuristics may reorder but never change a value), C09     *)
(* (the repetition rule is "two earlier occurrences on the stack") and C13 *)
(* (everything is forgotten by ucinewgame).  The specification is model-   *)
(* checked for small constants and bound to the code by trace validation   *)
(* (HeurTrace.tla): random operation histories on the real containers.     *)
(***************************************************************************)
EXTENDS Integers, Sequences, FiniteSets, HeurFn

CONSTANTS Moves,      \* identities of moves (from, to, piece, type in the code)
          MaxPly,     \* plies with killer slots: 0 .. MaxPly - 1 (64 in the code)
          Plies,      \* plies offered to Store (may exceed MaxPly: such stores are ignored)
          Depths,     \* depths offered to RecordCutoff
          Cap,        \* saturation bound of a history score (i32::MAX in the code)
          Hashes,     \* position identities pushed on the repetition stack
          MaxLen      \* bound on the stack / on the number of steps explored

VARIABLES kill,       \* [0..MaxPly-1 -> sequence of at most two moves, most recent first]
          hist,       \* [Moves -> Nat]   (keyed by from/to square in the code: see HistKey)
          rep,        \* sequence of hashes
          steps
hvars == <<kill, hist, rep, steps>>

HInit == /\ kill = [q \in 0..(MaxPly - 1) |-> <<>>]
         /\ hist = [m \in Moves |-> 0]
         /\ rep = <<>>
         /\ steps = 0

(* ---------------- killer moves: two slots per ply, most recent first, no duplicate of slot one *)
KStore(m, ply) == /\ kill' = KStoreF(kill, m, ply, MaxPly)
                  /\ UNCHANGED <<hist, rep>>
IsKiller(k, m, ply) == IsKillerF(k, m, ply, MaxPly)

(* ---------------- history heuristic: depth squared per cut-off, saturating; halved by every search *)
HRecord(m, d) == /\ hist' = [hist EXCEPT ![m] = SatAddF(hist[m], d * d, Cap)]
                 /\ UNCHANGED <<kill, rep>>
HAge == /\ hist' = AgeF(hist)
        /\ UNCHANGED <<kill, rep>>

(* ---------------- repetition stack *)
Count(s, x) == Cardinality({j \in 1..Len(s) : s[j] = x})
IsRepetition(s, x) == Count(s, x) >= 2
RPush(x) == rep' = Append(rep, x) /\ UNCHANGED <<kill, hist>>
RPop == rep' = (IF rep = <<>> THEN rep ELSE SubSeq(rep, 1, Len(rep) - 1)) /\ UNCHANGED <<kill, hist>>

HNext == /\ steps < MaxLen
         /\ steps' = steps + 1
         /\ \/ \E m \in Moves, ply \in Plies : KStore(m, ply)
            \/ \E m \in Moves, d \in Depths : HRecord(m, d)
            \/ HAge
            \/ \E x \in Hashes : Len(rep) < MaxLen /\ RPush(x)
            \/ RPop
HSpec == HInit /\ [][HNext]_hvars

(* ---------------- invariants *)
KillerShape == \A q \in DOMAIN kill : /\ Len(kill[q]) <= 2
                                      /\ Len(kill[q]) = 2 => kill[q][1] # kill[q][2]
HistRange == \A m \in Moves : hist[m] >= 0 /\ hist[m] <= Cap
\* action properties: a stored killer is a killer; the previous primary killer survives one more store;
\* ageing never increases a score, recording never decreases one; push / pop are inverse
KillerStep == [][\A q \in DOMAIN kill :
                   kill'[q] # kill[q] => /\ Len(kill'[q]) >= 1
                                         /\ kill[q] # <<>> => (Len(kill'[q]) = 2 /\ kill'[q][2] = kill[q][1])]_hvars
HistStep == [][\A m \in Moves : \/ hist'[m] >= hist[m]
                                \/ \A k \in Moves : hist'[k] = hist[k] \div 2]_hvars
RepStep == [][\/ rep' = rep \/ (Len(rep') = Len(rep) + 1 /\ SubSeq(rep', 1, Len(rep)) = rep)
              \/ (Len(rep') = Len(rep) - 1 /\ SubSeq(rep, 1, Len(rep')) = rep')]_hvars
=============================================================================
