----------------------------- MODULE ChessRules -----------------------------
(***************************************************************************)
(* The rules of chess as constant-level TLA+ operators (no variables).     *)
(*                                                                         *)
(* Legality is defined the FIDE way: a pseudo-legal move (geometry,        *)
(* blockers, pawn rules, castling conditions) is legal iff it does not     *)
(* leave the mover's king attacked.  This is deliberately NOT the          *)
(* pin/checker algorithm of src/move_gen.rs, so that it is an independent  *)
(* oracle for C01, C02, C17 and everything that needs "the legal moves".   *)
(*                                                                         *)
(* A position is [bd, stm, cr, ep]:                                        *)
(*   bd  : [0..63 -> 0..12]   0 empty, 1..6 white P N B R Q K, 7..12 black *)
(*   stm : "w" | "b"                                                       *)
(*   cr  : subset of {"K","Q","k","q"}                                     *)
(*   ep  : -1 or the square behind a pawn that has just advanced two       *)
(*         (set after EVERY double push: FEN convention, as in the code)   *)
(* Square index = rank * 8 + file, a1 = 0, h8 = 63 (as in src/square.rs).  *)
(***************************************************************************)
EXTENDS Integers, Sequences, FiniteSets, TLC

Squares == 0..63
File(s) == s % 8
Rank(s) == s \div 8
Sq(f, r) == r * 8 + f
OnBoard(f, r) == f \in 0..7 /\ r \in 0..7

P == 1  N == 2  B == 3  R == 4  Q == 5  K == 6
Mk(c, k) == IF c = "w" THEN k ELSE k + 6
Kind(p) == IF p = 0 THEN 0 ELSE ((p - 1) % 6) + 1
ColorOf(p) == IF p <= 6 THEN "w" ELSE "b"
Opp(c) == IF c = "w" THEN "b" ELSE "w"
IsColor(p, c) == p # 0 /\ ColorOf(p) = c
Colors == {"w", "b"}
Rights == {"K", "Q", "k", "q"}

RookD == {<<1,0>>, <<-1,0>>, <<0,1>>, <<0,-1>>}
BishopD == {<<1,1>>, <<1,-1>>, <<-1,1>>, <<-1,-1>>}
QueenD == RookD \cup BishopD
KnightD == {<<1,2>>, <<2,1>>, <<2,-1>>, <<1,-2>>, <<-1,-2>>, <<-2,-1>>, <<-2,1>>, <<-1,2>>}

\* number of squares one can walk from s in direction d before leaving the board
Steps(s, d) == CHOOSE n \in 0..7 :
                 /\ \A i \in 1..n : OnBoard(File(s) + i*d[1], Rank(s) + i*d[2])
                 /\ ~OnBoard(File(s) + (n+1)*d[1], Rank(s) + (n+1)*d[2])
\* Ray[s][d] = the sequence of squares walked from s in direction d
Ray == [s \in Squares |-> [d \in QueenD |->
          [i \in 1..Steps(s, d) |-> Sq(File(s) + i*d[1], Rank(s) + i*d[2])]]]
Leap(s, D) == {Sq(File(s) + d[1], Rank(s) + d[2]) :
                 d \in {e \in D : OnBoard(File(s) + e[1], Rank(s) + e[2])}}
KnightT == [s \in Squares |-> Leap(s, KnightD)]
KingT == [s \in Squares |-> Leap(s, QueenD)]

\* index of the first occupied square on a ray, 0 if none
FirstIdx(bd, ray) ==
  LET occ == {i \in 1..Len(ray) : bd[ray[i]] # 0}
  IN IF occ = {} THEN 0 ELSE CHOOSE i \in occ : \A j \in occ : i <= j

\* does some piece of colour c attack square t on board bd?
Attacked(bd, c, t) ==
  LET f == File(t)  r == Rank(t)
      pr == IF c = "w" THEN r - 1 ELSE r + 1      \* rank a c-pawn must stand on
  IN \/ \E df \in {-1, 1} : OnBoard(f + df, pr) /\ bd[Sq(f + df, pr)] = Mk(c, P)
     \/ \E s \in KnightT[t] : bd[s] = Mk(c, N)
     \/ \E s \in KingT[t] : bd[s] = Mk(c, K)
     \/ \E d \in RookD : LET ray == Ray[t][d]  i == FirstIdx(bd, ray)
                         IN i # 0 /\ bd[ray[i]] \in {Mk(c, R), Mk(c, Q)}
     \/ \E d \in BishopD : LET ray == Ray[t][d]  i == FirstIdx(bd, ray)
                           IN i # 0 /\ bd[ray[i]] \in {Mk(c, B), Mk(c, Q)}

KingSquares(bd, c) == {s \in Squares : bd[s] = Mk(c, K)}
KingSq(bd, c) == CHOOSE s \in Squares : bd[s] = Mk(c, K)
BdInCheck(bd, c) == Attacked(bd, Opp(c), KingSq(bd, c))
InCheck(pos) == BdInCheck(pos.bd, pos.stm)

Mv(f, t, pr) == [from |-> f, to |-> t, promo |-> pr]

SlideMoves(bd, c, s, D) ==
  UNION { LET ray == Ray[s][d]  i == FirstIdx(bd, ray)
              n == IF i = 0 THEN Len(ray) ELSE IF IsColor(bd[ray[i]], c) THEN i - 1 ELSE i
          IN {Mv(s, ray[j], 0) : j \in 1..n} : d \in D }

LeapMoves(bd, c, s, T) == {Mv(s, t, 0) : t \in {u \in T : ~IsColor(bd[u], c)}}

PawnMoves(pos, s) ==
  LET bd == pos.bd  c == pos.stm
      f == File(s)  r == Rank(s)
      dr == IF c = "w" THEN 1 ELSE -1
      startR == IF c = "w" THEN 1 ELSE 6
      lastR == IF c = "w" THEN 7 ELSE 0
      Promote(t) == IF Rank(t) = lastR THEN {Mv(s, t, k) : k \in {N, B, R, Q}} ELSE {Mv(s, t, 0)}
      one == Sq(f, r + dr)
      push1 == IF bd[one] = 0 THEN Promote(one) ELSE {}
      push2 == IF r = startR /\ bd[one] = 0 /\ bd[Sq(f, r + 2*dr)] = 0
               THEN {Mv(s, Sq(f, r + 2*dr), 0)} ELSE {}
      caps == UNION { LET t == Sq(f + df, r + dr)
                      IN IF IsColor(bd[t], Opp(c)) THEN Promote(t)
                         ELSE IF t = pos.ep THEN {Mv(s, t, 0)} ELSE {}
                      : df \in {d \in {-1, 1} : OnBoard(f + d, r + dr)} }
  IN IF OnBoard(f, r + dr) THEN push1 \cup push2 \cup caps ELSE {}

CastleMoves(pos) ==
  LET bd == pos.bd  c == pos.stm  o == Opp(c)
      r == IF c = "w" THEN 0 ELSE 7
      ks == IF c = "w" THEN "K" ELSE "k"
      qs == IF c = "w" THEN "Q" ELSE "q"
      e == Sq(4, r)
      okK == /\ ks \in pos.cr /\ bd[e] = Mk(c, K) /\ bd[Sq(7, r)] = Mk(c, R)
             /\ bd[Sq(5, r)] = 0 /\ bd[Sq(6, r)] = 0
             /\ ~Attacked(bd, o, e) /\ ~Attacked(bd, o, Sq(5, r)) /\ ~Attacked(bd, o, Sq(6, r))
      okQ == /\ qs \in pos.cr /\ bd[e] = Mk(c, K) /\ bd[Sq(0, r)] = Mk(c, R)
             /\ bd[Sq(1, r)] = 0 /\ bd[Sq(2, r)] = 0 /\ bd[Sq(3, r)] = 0
             /\ ~Attacked(bd, o, e) /\ ~Attacked(bd, o, Sq(3, r)) /\ ~Attacked(bd, o, Sq(2, r))
  IN (IF okK THEN {Mv(e, Sq(6, r), 0)} ELSE {}) \cup (IF okQ THEN {Mv(e, Sq(2, r), 0)} ELSE {})

Pseudo(pos) ==
  LET bd == pos.bd  c == pos.stm
  IN UNION { LET k == Kind(bd[s])
             IN CASE k = P -> PawnMoves(pos, s)
                  [] k = N -> LeapMoves(bd, c, s, KnightT[s])
                  [] k = B -> SlideMoves(bd, c, s, BishopD)
                  [] k = R -> SlideMoves(bd, c, s, RookD)
                  [] k = Q -> SlideMoves(bd, c, s, QueenD)
                  [] k = K -> LeapMoves(bd, c, s, KingT[s])
             : s \in {u \in Squares : IsColor(bd[u], c)} }
     \cup CastleMoves(pos)

IsEP(pos, m) == Kind(pos.bd[m.from]) = P /\ m.to = pos.ep /\ File(m.from) # File(m.to)
IsCastle(pos, m) == Kind(pos.bd[m.from]) = K /\ (File(m.to) - File(m.from)) \in {2, -2}
IsCapture(pos, m) == pos.bd[m.to] # 0 \/ IsEP(pos, m)
IsPromotion(m) == m.promo # 0

\* castling rights lost when a move leaves from / arrives at a king or rook home square
LostRights(m) ==
  LET touched == {m.from, m.to}
  IN (IF 4 \in touched THEN {"K", "Q"} ELSE {})
     \cup (IF 7 \in touched THEN {"K"} ELSE {})
     \cup (IF 0 \in touched THEN {"Q"} ELSE {})
     \cup (IF 60 \in touched THEN {"k", "q"} ELSE {})
     \cup (IF 63 \in touched THEN {"k"} ELSE {})
     \cup (IF 56 \in touched THEN {"q"} ELSE {})

Apply(pos, m) ==
  LET bd == pos.bd  c == pos.stm  p == bd[m.from]
      bd1 == [bd EXCEPT ![m.from] = 0, ![m.to] = IF m.promo # 0 THEN Mk(c, m.promo) ELSE p]
      bd2 == IF IsEP(pos, m) THEN [bd1 EXCEPT ![Sq(File(m.to), Rank(m.from))] = 0] ELSE bd1
      bd3 == IF IsCastle(pos, m)
             THEN IF File(m.to) = 6
                  THEN [bd2 EXCEPT ![Sq(7, Rank(m.from))] = 0, ![Sq(5, Rank(m.from))] = Mk(c, R)]
                  ELSE [bd2 EXCEPT ![Sq(0, Rank(m.from))] = 0, ![Sq(3, Rank(m.from))] = Mk(c, R)]
             ELSE bd2
      ep2 == IF Kind(p) = P /\ (Rank(m.to) - Rank(m.from)) \in {2, -2}
             THEN Sq(File(m.from), (Rank(m.from) + Rank(m.to)) \div 2) ELSE -1
  IN [bd |-> bd3, stm |-> Opp(c), cr |-> pos.cr \ LostRights(m), ep |-> ep2]

Legal(pos) == {m \in Pseudo(pos) : ~BdInCheck(Apply(pos, m).bd, pos.stm)}

(***************************************************************************)
(* Derived notions used by the search properties.                          *)
(***************************************************************************)
GivesCheck(pos, m) == InCheck(Apply(pos, m))
\* captures (incl. en passant), promotions, checks (direct or discovered)
Tactical(pos) == {m \in Legal(pos) : IsCapture(pos, m) \/ IsPromotion(m) \/ GivesCheck(pos, m)}
\* what the search examines past the horizon (C17)
QMoves(pos) == IF InCheck(pos) THEN Legal(pos) ELSE Tactical(pos)

Mated(pos) == InCheck(pos) /\ Legal(pos) = {}
Stalemated(pos) == ~InCheck(pos) /\ Legal(pos) = {}
MateInOne(pos) == {m \in Legal(pos) : Mated(Apply(pos, m))}
AllowsMateInOne(pos, m) == MateInOne(Apply(pos, m)) # {}

(***************************************************************************)
(* Validity: the quantifier of the listed properties.                      *)
(***************************************************************************)
OneKingEach(bd) == \A c \in Colors : Cardinality(KingSquares(bd, c)) = 1
NoPawnOnBackRanks(bd) == \A s \in Squares : Rank(s) \in {0, 7} => Kind(bd[s]) # P
RightsConsistent(pos) ==
  /\ "K" \in pos.cr => pos.bd[4] = Mk("w", K) /\ pos.bd[7] = Mk("w", R)
  /\ "Q" \in pos.cr => pos.bd[4] = Mk("w", K) /\ pos.bd[0] = Mk("w", R)
  /\ "k" \in pos.cr => pos.bd[60] = Mk("b", K) /\ pos.bd[63] = Mk("b", R)
  /\ "q" \in pos.cr => pos.bd[60] = Mk("b", K) /\ pos.bd[56] = Mk("b", R)
EpConsistent(pos) ==
  pos.ep # -1 =>
    LET f == File(pos.ep)
    IN IF pos.stm = "w"
       THEN Rank(pos.ep) = 5 /\ pos.bd[pos.ep] = 0 /\ pos.bd[Sq(f, 6)] = 0 /\ pos.bd[Sq(f, 4)] = Mk("b", P)
       ELSE Rank(pos.ep) = 2 /\ pos.bd[pos.ep] = 0 /\ pos.bd[Sq(f, 1)] = 0 /\ pos.bd[Sq(f, 3)] = Mk("w", P)
Valid(pos) ==
  /\ OneKingEach(pos.bd)
  /\ NoPawnOnBackRanks(pos.bd)
  /\ ~BdInCheck(pos.bd, Opp(pos.stm))          \* the side not to move is not in check
  /\ RightsConsistent(pos)
  /\ EpConsistent(pos)

\* "unusual right / ep combinations": drop any subset of rights and/or the ep square
Weakenings(pos) == {[pos EXCEPT !.cr = c, !.ep = e] : c \in SUBSET pos.cr, e \in {pos.ep, -1}}

(***************************************************************************)
(* Symmetries.                                                             *)
(***************************************************************************)
FlipSq(s) == Sq(File(s), 7 - Rank(s))
FlipPiece(p) == IF p = 0 THEN 0 ELSE IF p <= 6 THEN p + 6 ELSE p - 6
FlipRight(r) == CASE r = "K" -> "k" [] r = "Q" -> "q" [] r = "k" -> "K" [] r = "q" -> "Q"
\* board mirrored top-to-bottom with colours (and side to move) exchanged
Mirror(pos) == [bd  |-> [s \in Squares |-> FlipPiece(pos.bd[FlipSq(s)])],
                stm |-> Opp(pos.stm),
                cr  |-> {FlipRight(r) : r \in pos.cr},
                ep  |-> IF pos.ep = -1 THEN -1 ELSE FlipSq(pos.ep)]
MirrorMove(m) == Mv(FlipSq(m.from), FlipSq(m.to), m.promo)
\* only the side to move is swapped (used by the evaluation symmetry, C14)
SwapSide(pos) == [pos EXCEPT !.stm = Opp(pos.stm), !.ep = -1]

(***************************************************************************)
(* Text: FEN and UCI long algebraic notation, produced by the spec itself. *)
(***************************************************************************)
FileCh == <<"a","b","c","d","e","f","g","h">>
RankCh == <<"1","2","3","4","5","6","7","8">>
SqName(s) == FileCh[File(s) + 1] \o RankCh[Rank(s) + 1]
PromoCh == <<"", "n", "b", "r", "q">>
Uci(m) == SqName(m.from) \o SqName(m.to) \o PromoCh[IF m.promo = 0 THEN 1 ELSE m.promo]
PieceCh == <<"P","N","B","R","Q","K","p","n","b","r","q","k">>

RECURSIVE RankStr(_, _, _, _)
RankStr(bd, r, f, run) ==
  IF f = 8 THEN (IF run > 0 THEN ToString(run) ELSE "")
  ELSE LET p == bd[Sq(f, r)]
       IN IF p = 0 THEN RankStr(bd, r, f + 1, run + 1)
          ELSE (IF run > 0 THEN ToString(run) ELSE "") \o PieceCh[p] \o RankStr(bd, r, f + 1, 0)
Placement(bd) ==
  RankStr(bd,7,0,0) \o "/" \o RankStr(bd,6,0,0) \o "/" \o RankStr(bd,5,0,0) \o "/" \o RankStr(bd,4,0,0)
  \o "/" \o RankStr(bd,3,0,0) \o "/" \o RankStr(bd,2,0,0) \o "/" \o RankStr(bd,1,0,0) \o "/" \o RankStr(bd,0,0,0)
CrStr(cr) == IF cr = {} THEN "-"
             ELSE (IF "K" \in cr THEN "K" ELSE "") \o (IF "Q" \in cr THEN "Q" ELSE "")
                  \o (IF "k" \in cr THEN "k" ELSE "") \o (IF "q" \in cr THEN "q" ELSE "")
\* the four position-defining FEN fields
ToFEN4(pos) == Placement(pos.bd) \o " " \o pos.stm \o " " \o CrStr(pos.cr) \o " "
               \o (IF pos.ep = -1 THEN "-" ELSE SqName(pos.ep))
\* a full six-field FEN with the two move counters
ToFEN6(pos, hm, fm) == ToFEN4(pos) \o " " \o ToString(hm) \o " " \o ToString(fm)

StartBd == [s \in Squares |->
   CASE Rank(s) = 1 -> 1 [] Rank(s) = 6 -> 7
     [] Rank(s) = 0 -> <<4,2,3,5,6,3,2,4>>[File(s) + 1]
     [] Rank(s) = 7 -> <<10,8,9,11,12,9,8,10>>[File(s) + 1]
     [] OTHER -> 0]
StartPos == [bd |-> StartBd, stm |-> "w", cr |-> Rights, ep |-> -1]

\* play a sequence of moves (each must be legal where it is played)
RECURSIVE Play(_, _)
Play(pos, ms) == IF ms = <<>> THEN pos ELSE Play(Apply(pos, Head(ms)), Tail(ms))

(***************************************************************************)
(* JSON projections shared by the trace specifications.                    *)
(*   structural position: {"bd":[64 codes], "stm":"w", "cr":["K",..],      *)
(*                         "ep":-1|sq}                                     *)
(***************************************************************************)
FromJson(p) == [bd  |-> [s \in Squares |-> p.bd[s + 1]],
                stm |-> p.stm,
                cr  |-> {p.cr[i] : i \in 1..Len(p.cr)},
                ep  |-> p.ep]
SeqToSet(q) == {q[i] : i \in 1..Len(q)}
=============================================================================
