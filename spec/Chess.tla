------------------------------- MODULE Chess -------------------------------
(***************************************************************************)
(* The game of chess as a state machine: Init = any seed position,         *)
(* Next = play any legal move.  Used in three ways:                        *)
(*  - exhaustive BFS to MaxPly from the seeds (VIEW hides history), with   *)
(*    Valid as an invariant and one JSON line per distinct position        *)
(*    (position, check flag, every legal move with its successor,          *)
(*    tactical set) that the harness replays into the real move generator  *)
(*    and make_move (C01, C02, C17, specification -> implementation);      *)
(*  - random simulation (long games: rights, e.p. and material change      *)
(*    along real histories), same emission, replayed with make_move only;  *)
(*  - perft sanity: the number of behaviours equals the published counts.  *)
(***************************************************************************)
EXTENDS ChessRules, Json, IOUtils

CONSTANTS MaxPly,      \* depth bound of the exploration
          EmitOn,      \* TRUE: print one JSON line per expanded state
          EmitLight,   \* TRUE: the line carries only the position text (for C11/C14/... inputs)
          CheckMirror, \* TRUE: check Legal(Mirror(p)) = Mirror(Legal(p)) on every expanded state
          Shard, NShards, \* generated families are enumerated in NShards separate TLC runs (by king square)
          SeedMode,    \* "file": the seed list; "ep1"/"ep2"/"castle1"/"castle2": a generated family (below)
          WeakenSeeds  \* TRUE: also start from every seed with any subset of its castling rights
                       \* and/or its e.p. square dropped ("unusual right / e.p. combinations")

\* seeds: ndjson, one {"fen": <4-field FEN>, "pos": <structural position>} per line
Seeds == ndJsonDeserialize(IOEnv.SEEDS)

VARIABLES pos,   \* current position
          path,  \* UCI texts of the moves played since the seed (history; hidden by VIEW in BFS)
          root   \* index of the seed this behaviour started from
vars == <<pos, path, root>>
ply == Len(path)
last == IF path = <<>> THEN "" ELSE path[Len(path)]

(***************************************************************************)
(* Generated families ("worlds"): small positions enumerated exhaustively  *)
(* around the rules whose legality test depends on lines through the king. *)
(*  ep:     the mover's king anywhere, a pawn that can capture en passant, *)
(*          the pawn that just advanced two, and one / two enemy sliders   *)
(*          on the lines through the king (pins along / across the capture *)
(*          line, checks discovered by the double push, the rank with both *)
(*          pawns); every combination, filtered by Valid.                  *)
(*  castle: king and both rooks at home with all rights, one / two enemy   *)
(*          pieces of any kind anywhere (transit squares attacked, king in *)
(*          check, rook attacked only).                                    *)
(* Each family is closed under Mirror (both colours).                      *)
(***************************************************************************)
KingLines(k) == UNION {{Ray[k][d][i] : i \in 1..Len(Ray[k][d])} : d \in QueenD}
Put(pieces) == [s \in Squares |-> IF \E x \in pieces : x[1] = s THEN (CHOOSE x \in pieces : x[1] = s)[2] ELSE 0]
DistinctSquares(pieces) == Cardinality({x[1] : x \in pieces}) = Cardinality(pieces)

\* white to move, black has just played a double push to `bp` (ep square behind it); white pawn on `wp`
EpConfigs(full) == IF full THEN {<<36, 35, 43>>, <<34, 35, 43>>, <<33, 32, 40>>, <<38, 39, 47>>}   \* e5xd6, c5xd6, b5xa6, g5xh6
                   ELSE {<<36, 35, 43>>}
EpWorld(two, full) ==
  LET kbs == IF full THEN {0, 7, 63} ELSE {7}
      base == UNION {{ <<k, c, kb>> : k \in {q \in Squares : q % NShards = Shard} \ {c[1], c[2], c[3], kb} } : c \in EpConfigs(full), kb \in kbs}
      one == UNION {{ {<<b[1], 6>>, <<b[3], 12>>, <<b[2][1], 1>>, <<b[2][2], 7>>, <<s1, k1>>}
                        : s1 \in KingLines(b[1]), k1 \in {9, 10} } : b \in base}
      twoS == UNION {{ {<<b[1], 6>>, <<b[3], 12>>, <<b[2][1], 1>>, <<b[2][2], 7>>, <<s1, k1>>, <<s2, k2>>}
                        : s1 \in KingLines(b[1]), k1 \in {9, 10}, s2 \in KingLines(b[1]), k2 \in {9, 10} } : b \in base}
      sets == IF two THEN twoS ELSE one
      ps == {[bd |-> Put(x), stm |-> "w", cr |-> {}, ep |-> (CHOOSE y \in x : y[2] = 7)[1] + 8] : x \in {y \in sets : DistinctSquares(y)}}
      ok == {p \in ps : Valid(p)}
  IN ok \cup {Mirror(p) : p \in ok}

\* ep3:    an en-passant capture with a BYSTANDER: kings tucked away, the capturing pawn, the pawn that just advanced two
\*         (every file, capture from either side), and one more man of any kind and colour on any square of the three files
\*         involved - a second pawn on the victim's file above or below it, a piece on the square the victim came from, ...
\*         The successor must lose exactly the victim.  (The shard constant splits the bystander's squares.)
Ep3World ==
  LET pairs == {<<32 + f, 32 + g>> : f \in 0..7, g \in 0..7} 
      adj == {c \in pairs : (c[1] % 8) - (c[2] % 8) \in {1, -1}}          \* <<capturer (white, rank 5), victim (black, rank 5)>>
      Files3(c) == {q \in Squares : (q % 8) \in {(c[2] % 8) - 1, c[2] % 8, (c[2] % 8) + 1}}
      SetsFor(c) == { {<<6, 6>>, <<62, 12>>, <<c[1], 1>>, <<c[2], 7>>, <<x, k>>}
                        : x \in {q \in Files3(c) : q % NShards = Shard} \ {c[2] + 8, c[2] + 16}, k \in {1, 2, 3, 4, 5, 7, 8, 9, 10, 11} }
      ps == UNION {{[bd |-> Put(y), stm |-> "w", cr |-> {}, ep |-> c[2] + 8] : y \in {z \in SetsFor(c) : DistinctSquares(z)}} : c \in adj}
      ok == {p \in ps : Valid(p)}
  IN ok \cup {Mirror(p) : p \in ok}

CastleWorld(two) ==
  LET kinds == {7, 8, 9, 10, 11}
      home == {<<4, 6>>, <<0, 4>>, <<7, 4>>}
      sqs == Squares \ {4, 0, 7}
      mine == {q \in sqs : q % NShards = Shard}
      one == UNION {{ home \cup {<<kb, 12>>, <<s1, k1>>} : s1 \in mine \ {kb}, k1 \in kinds } : kb \in {57, 62}}
      twoS == UNION {{ home \cup {<<kb, 12>>, <<s1, k1>>, <<s2, k2>>} : s1 \in mine \ {kb}, k1 \in kinds, s2 \in sqs \ {kb}, k2 \in kinds } : kb \in {62}}
      sets == IF two THEN twoS ELSE one
      ps == {[bd |-> Put(x), stm |-> "w", cr |-> {"K", "Q"}, ep |-> -1] : x \in {y \in sets : DistinctSquares(y)}}
      ok == {p \in ps : Valid(p)}
  IN ok \cup {Mirror(p) : p \in ok}

\* pin:    the mover's king anywhere, one own man of any kind on one of the eight lines through the king and
\*         an enemy slider of any kind further out on the same line (a true pin when the slider moves along
\*         that line, a look-alike otherwise): moves of a pinned man along / off the pin line, pawn pushes,
\*         captures of the pinner with and without promotion (all four pieces).  `chk` adds one more enemy
\*         piece that may give check (pin and check at once), for a few king squares.
PinWorld(chk) ==
  LET ks == {q \in (IF chk THEN {0, 4, 27, 31, 60} ELSE Squares) : q % NShards = Shard}
      quads == {q \in ks \X QueenD \X (1..7) \X (1..7) \X {0, 63} : q[3] < q[4] /\ q[4] <= Len(Ray[q[1]][q[2]])
                                                                        /\ (chk => q[4] <= q[3] + 2 /\ q[3] <= 2)}
      Base(q, x, sl) == {<<q[1], 6>>, <<q[5], 12>>, <<Ray[q[1]][q[2]][q[3]], x>>, <<Ray[q[1]][q[2]][q[4]], sl>>}
      plain == UNION {{ Base(q, x, sl) : x \in {1, 2, 3, 4, 5}, sl \in {9, 10, 11} } : q \in quads}
      withChk == UNION {{ Base(q, x, sl) \cup {<<c, ck>>} : x \in {1, 2, 3, 4, 5}, sl \in {9, 10, 11},
                                                          c \in KingLines(q[1]) \cup KnightT[q[1]], ck \in {8, 9, 10} } : q \in quads}
      sets == IF chk THEN withChk ELSE plain
      ps == {[bd |-> Put(y), stm |-> "w", cr |-> {}, ep |-> -1] : y \in {z \in sets : DistinctSquares(z)}}
      ok == {q \in ps : Valid(q)}
  IN ok \cup {Mirror(q) : q \in ok}

\* chk:    the mover's king anywhere and ONE enemy man of every kind on every other square (pawns on their
\*         seventh rank included): the check test and the evasions, for every geometry.
CheckWorld ==
  LET ks == {q \in Squares : q % NShards = Shard}
      sets == {{<<k, 6>>, <<kb, 12>>, <<t, x>>} : k \in ks, kb \in {0, 63}, t \in Squares, x \in {7, 8, 9, 10, 11}}
      ps == {[bd |-> Put(y), stm |-> "w", cr |-> {}, ep |-> -1] : y \in {z \in sets : DistinctSquares(z)}}
      ok == {q \in ps : Valid(q)}
  IN ok \cup {Mirror(q) : q \in ok}

World == CASE SeedMode = "ep1" -> EpWorld(FALSE, TRUE)
           [] SeedMode = "ep2" -> EpWorld(TRUE, FALSE)
           [] SeedMode = "ep2full" -> EpWorld(TRUE, TRUE)
           [] SeedMode = "ep3" -> Ep3World
           [] SeedMode = "castle1" -> CastleWorld(FALSE)
           [] SeedMode = "castle2" -> CastleWorld(TRUE)
           [] SeedMode = "chk1" -> CheckWorld
           [] SeedMode = "pin1" -> PinWorld(FALSE)
           [] SeedMode = "pin2" -> PinWorld(TRUE)
           [] OTHER -> {}

Init == IF SeedMode = "file"
        THEN \E i \in 1..Len(Seeds) :
               /\ pos \in (IF WeakenSeeds THEN Weakenings(FromJson(Seeds[i].pos)) ELSE {FromJson(Seeds[i].pos)})
               /\ path = <<>> /\ root = i
        ELSE pos \in World /\ path = <<>> /\ root = 0

PlayMove(m) == /\ pos' = Apply(pos, m)
               /\ path' = Append(path, Uci(m))
               /\ UNCHANGED root

View == pos                     \* BFS over distinct positions
PerftView == <<pos, path>>      \* one state per move sequence: counts are perft numbers

(* invariants *)
ValidInv == Valid(pos)
\* the structural seed really is the position its FEN text denotes (validates the seed converter)
SeedTextOK == (ply = 0 /\ root > 0) => ToFEN4(FromJson(Seeds[root].pos)) = Seeds[root].fen
\* UCI text identifies a move
UciInjective == LET L == Legal(pos) IN Cardinality({Uci(m) : m \in L}) = Cardinality(L)
\* rules symmetry: the legal moves of the mirrored position are the mirrored legal moves
MirrorSym == Legal(Mirror(pos)) = {MirrorMove(m) : m \in Legal(pos)}

StateRec ==
  LET L == Legal(pos)
  IN [k    |-> "S",
      root |-> root, ply |-> ply, last |-> last,
      fen  |-> ToFEN4(pos),
      chk  |-> InCheck(pos),
      succ |-> {<<Uci(m), ToFEN4(Apply(pos, m))>> : m \in L},
      tact |-> {Uci(m) : m \in {x \in L : IsCapture(pos, x) \/ IsPromotion(x) \/ GivesCheck(pos, x)}},
      flags |-> [ep  |-> \E m \in L : IsEP(pos, m),
                 cas |-> \E m \in L : IsCastle(pos, m),
                 pro |-> \E m \in L : IsPromotion(m),
                 mate |-> (L = {} /\ InCheck(pos)),
                 stale |-> (L = {} /\ ~InCheck(pos))]]

LightRec == [k |-> "P", root |-> root, ply |-> ply, fen |-> ToFEN4(pos)]
Emit == EmitOn => PrintT(<<"@@", IF EmitLight THEN ToJson(LightRec) ELSE ToJson(StateRec)>>)

Expand == /\ Assert(Valid(pos), <<"rules specification: reached an invalid position", ToFEN4(pos)>>)
          /\ Assert(UciInjective, <<"UCI text does not identify a move", ToFEN4(pos)>>)
          /\ (CheckMirror => Assert(MirrorSym, <<"Legal is not mirror symmetric", ToFEN4(pos)>>))
          /\ Emit

\* Emission and the per-state sanity checks of the rules specification happen when a state is
\* EXPANDED (once per distinct state in BFS, once per step of a simulated game) - in simulation mode
\* TLC evaluates invariants on every candidate successor, which would print states off the walk.
Next == /\ Expand
        /\ ply < MaxPly
        /\ \E m \in Legal(pos) : PlayMove(m)

Spec == Init /\ [][Next]_vars
=============================================================================
