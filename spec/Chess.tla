------------------------------- MODULE Chess -------------------------------
(***************************************************************************)
(* The game of chess as a state machine: Init = any seed position,         *)
(* Next = play any legal move.  Used in three ways:                        *)
(*  - exhaustive BFS to MaxPly from the seeds (VIEW hides history), with   *)
(*    Valid as an invariant and one JSON line per distinct position        *)
(*    (position, check flag, every legal move with its successor,          *)
(*    tactical set) that the harness replays into the real move generator  *)
(*    and make_move (C01, C02, C17, specification -> implementation);      *)
(*  - random simulation (long games: rights, e.p. and material change      *)
(*    along real histories), same emission, replayed with make_move only;  *)
(*  - perft sanity: the number of behaviours equals the published counts.  *)
(***************************************************************************)
EXTENDS ChessRules, Json, IOUtils

CONSTANTS MaxPly,      \* depth bound of the exploration
          EmitOn,      \* TRUE: print one JSON line per expanded state
          EmitLight,   \* TRUE: the line carries only the position text (for C11/C14/... inputs)
          CheckMirror, \* TRUE: check Legal(Mirror(p)) = Mirror(Legal(p)) on every expanded state
          WeakenSeeds  \* TRUE: also start from every seed with any subset of its castling rights
                       \* and/or its e.p. square dropped ("unusual right / e.p. combinations")

\* seeds: ndjson, one {"fen": <4-field FEN>, "pos": <structural position>} per line
Seeds == ndJsonDeserialize(IOEnv.SEEDS)

VARIABLES pos,   \* current position
          path,  \* UCI texts of the moves played since the seed (history; hidden by VIEW in BFS)
          root   \* index of the seed this behaviour started from
vars == <<pos, path, root>>
ply == Len(path)
last == IF path = <<>> THEN "" ELSE path[Len(path)]

Init == \E i \in 1..Len(Seeds) :
          /\ pos \in (IF WeakenSeeds THEN Weakenings(FromJson(Seeds[i].pos)) ELSE {FromJson(Seeds[i].pos)})
          /\ path = <<>> /\ root = i

PlayMove(m) == /\ pos' = Apply(pos, m)
               /\ path' = Append(path, Uci(m))
               /\ UNCHANGED root

View == pos                     \* BFS over distinct positions
PerftView == <<pos, path>>      \* one state per move sequence: counts are perft numbers

(* invariants *)
ValidInv == Valid(pos)
\* the structural seed really is the position its FEN text denotes (validates the seed converter)
SeedTextOK == ply = 0 => ToFEN4(FromJson(Seeds[root].pos)) = Seeds[root].fen
\* UCI text identifies a move
UciInjective == LET L == Legal(pos) IN Cardinality({Uci(m) : m \in L}) = Cardinality(L)
\* rules symmetry: the legal moves of the mirrored position are the mirrored legal moves
MirrorSym == Legal(Mirror(pos)) = {MirrorMove(m) : m \in Legal(pos)}

StateRec ==
  LET L == Legal(pos)
  IN [k    |-> "S",
      root |-> root, ply |-> ply, last |-> last,
      fen  |-> ToFEN4(pos),
      chk  |-> InCheck(pos),
      succ |-> {<<Uci(m), ToFEN4(Apply(pos, m))>> : m \in L},
      tact |-> {Uci(m) : m \in {x \in L : IsCapture(pos, x) \/ IsPromotion(x) \/ GivesCheck(pos, x)}},
      flags |-> [ep  |-> \E m \in L : IsEP(pos, m),
                 cas |-> \E m \in L : IsCastle(pos, m),
                 pro |-> \E m \in L : IsPromotion(m),
                 mate |-> (L = {} /\ InCheck(pos)),
                 stale |-> (L = {} /\ ~InCheck(pos))]]

LightRec == [k |-> "P", root |-> root, ply |-> ply, fen |-> ToFEN4(pos)]
Emit == EmitOn => PrintT(<<"@@", IF EmitLight THEN ToJson(LightRec) ELSE ToJson(StateRec)>>)

Expand == /\ Assert(Valid(pos), <<"rules specification: reached an invalid position", ToFEN4(pos)>>)
          /\ Assert(UciInjective, <<"UCI text does not identify a move", ToFEN4(pos)>>)
          /\ (CheckMirror => Assert(MirrorSym, <<"Legal is not mirror symmetric", ToFEN4(pos)>>))
          /\ Emit

\* Emission and the per-state sanity checks of the rules specification happen when a state is
\* EXPANDED (once per distinct state in BFS, once per step of a simulated game) - in simulation mode
\* TLC evaluates invariants on every candidate successor, which would print states off the walk.
Next == /\ Expand
        /\ ply < MaxPly
        /\ \E m \in Legal(pos) : PlayMove(m)

Spec == Init /\ [][Next]_vars
=============================================================================
