----------------------------- MODULE TimeCtlAll -----------------------------
(***************************************************************************)
(* The allocation formula transcribed in TimeCtl.tla (ModelBudget) meets   *)
(* the C12 relation for ALL natural clock values and increments, not only  *)
(* on the grid TLC enumerates.  Checked symbolically by Apalache:          *)
(*   apalache-mc check --length=0 --inv=Fits TimeCtlAll.tla                *)
(* (Init ranges over all naturals; the invariant is checked in the initial *)
(* states, i.e. for every pair of values).  The link from the code to the  *)
(* transcription is the SPEC-DRIFT comparison of TimeTrace.tla.            *)
(***************************************************************************)
EXTENDS Integers

VARIABLES
  \* @type: Int;
  own,
  \* @type: Int;
  inc

Min2(a, b) == IF a <= b THEN a ELSE b
Max2(a, b) == IF a >= b THEN a ELSE b
ModelBudget(t, i) == Min2((Max2(t - 5000, 0) \div 25) + i, t \div 2)

Init == own \in Nat /\ inc \in Nat
Next == UNCHANGED <<own, inc>>

\* C12: the budget never exceeds the mover's remaining time and is strictly below it whenever any remains
Fits == LET b == ModelBudget(own, inc) IN b >= 0 /\ b <= own /\ (own > 0 => b < own)
\* the pre-repair formula (commit c0cfcf1 repaired it): must be refuted
OldBudget(t, i) == (Max2(t - 5000, 0) \div 25) + i
OldFits == LET b == OldBudget(own, inc) IN b >= 0 /\ b <= own /\ (own > 0 => b < own)
=============================================================================
