------------------------------ MODULE TTProof ------------------------------
(***************************************************************************)
(* C15 for UNBOUNDED histories and arbitrary key / depth / data sets:      *)
(* IndInv of TTCore.tla is an inductive invariant of SpecU (any number of  *)
(* stores and lookups), and the table-level statements of the property     *)
(* follow from it.  Checked by TLAPS (tlapm); TLC checks the same IndInv   *)
(* on the bounded model (mc/TT.cfg), and the trace / replay checks bind    *)
(* TTCore's actions to src/transposition.rs.                               *)
(*                                                                         *)
(* Depths is assumed to be a set of naturals (the code uses u8).           *)
(***************************************************************************)
EXTENDS TTCore, TLAPS

ASSUME DepthsNat == Depths \subseteq Nat
ASSUME NoneNotData == "none" \notin Data

LEMMA NoneShape == None.depth = -1 /\ None \in [depth : Depths \cup {-1}, data : Data \cup {"none"}]
  BY DEF None

LEMMA EntryNotNone == \A d \in Depths, x \in Data : Entry(d, x) # None
  BY DepthsNat DEF Entry, None

THEOREM InitInv == Init => IndInv
  <1> SUFFICES ASSUME Init PROVE IndInv
    OBVIOUS
  <1>1. TypeOK
    BY NoneShape DEF Init, TypeOK
  <1>2. \A k \in Keys : EntryOK(k)
    BY DEF Init, EntryOK
  <1> QED BY <1>1, <1>2 DEF IndInv

THEOREM StoreInv == ASSUME IndInv, NEW k \in Keys, NEW d \in Depths, NEW x \in Data, Store(k, d, x)
                    PROVE IndInv'
  <1> DEFINE r == [key |-> k, depth |-> d, data |-> x]
  <1> USE DEF IndInv
  <1>a. log' = Append(log, r) /\ tt' = StoreRule(tt, k, d, x)
    BY DEF Store
  <1>b. log \in Seq([key : Keys, depth : Depths, data : Data]) /\ r \in [key : Keys, depth : Depths, data : Data]
    BY DEF TypeOK
  <1>c. /\ Len(log') = Len(log) + 1
        /\ \A i \in 1..Len(log) : log'[i] = log[i]
        /\ log'[Len(log) + 1] = r
        /\ log' \in Seq([key : Keys, depth : Depths, data : Data])
    BY <1>a, <1>b
  <1>d. Entry(d, x) \in [depth : Depths \cup {-1}, data : Data \cup {"none"}]
    BY DEF Entry
  <1>1. TypeOK'
    BY <1>a, <1>c, <1>d DEF TypeOK, StoreRule
  <1>2. ASSUME NEW k2 \in Keys PROVE EntryOK(k2)'
    <2>1. CASE k2 # k
      <3>1. tt'[k2] = tt[k2]
        BY <1>a, <2>1 DEF StoreRule, TypeOK
      <3>2. EntryOK(k2)
        OBVIOUS
      <3>3. \A i \in 1..Len(log') : (log'[i].key = k2) => (i \in 1..Len(log) /\ log'[i] = log[i])
        BY <1>c, <2>1, <1>b
      <3>4. \A i \in 1..Len(log) : i \in 1..Len(log') /\ log'[i] = log[i]
        BY <1>c, <1>b
      <3>5. CASE tt[k2] = None
        <4>1. \A i \in 1..Len(log) : log[i].key # k2
          BY <3>2, <3>5 DEF EntryOK
        <4>2. \A i \in 1..Len(log') : log'[i].key # k2
          BY <4>1, <3>3
        <4> QED BY <4>2, <3>1, <3>5 DEF EntryOK
      <3>6. CASE tt[k2] # None
        <4>1. /\ \E i \in 1..Len(log) : log[i].key = k2 /\ tt[k2] = Entry(log[i].depth, log[i].data)
              /\ \A i \in 1..Len(log) : log[i].key = k2 => log[i].depth <= tt[k2].depth
          BY <3>2, <3>6 DEF EntryOK
        <4>2. \E i \in 1..Len(log') : log'[i].key = k2 /\ tt'[k2] = Entry(log'[i].depth, log'[i].data)
          BY <4>1, <3>4, <3>1
        <4>3. \A i \in 1..Len(log') : log'[i].key = k2 => log'[i].depth <= tt'[k2].depth
          BY <4>1, <3>3, <3>1
        <4> QED BY <4>2, <4>3, <3>1, <3>6 DEF EntryOK
      <3> QED
        BY <3>5, <3>6
    <2>2. CASE k2 = k
      <3>0. EntryOK(k)
        OBVIOUS
      <3>1. CASE tt[k] = None \/ tt[k].depth <= d
        <4>1. tt'[k] = Entry(d, x)
          BY <1>a, <3>1 DEF StoreRule, TypeOK
        <4>2. tt'[k] # None
          BY <4>1, EntryNotNone
        <4>3. \E i \in 1..Len(log') : log'[i].key = k /\ tt'[k] = Entry(log'[i].depth, log'[i].data)
          BY <1>c, <4>1, <1>b
        <4>4. \A i \in 1..Len(log') : log'[i].key = k => log'[i].depth <= tt'[k].depth
          <5> SUFFICES ASSUME NEW i \in 1..Len(log'), log'[i].key = k PROVE log'[i].depth <= d
            BY <4>1 DEF Entry
          <5>1. CASE i = Len(log) + 1
            BY <5>1, <1>c, DepthsNat
          <5>2. CASE i \in 1..Len(log)
            <6>1. log'[i] = log[i] /\ log[i].key = k
              BY <5>2, <1>c
            <6>2. tt[k] # None
              BY <6>1, <3>0, <5>2 DEF EntryOK
            <6>3. log[i].depth <= tt[k].depth /\ tt[k].depth <= d
              BY <6>1, <6>2, <3>0, <3>1, <5>2 DEF EntryOK
            <6>4. log[i].depth \in Nat /\ d \in Nat /\ tt[k].depth \in Int
              BY <5>2, <1>b, DepthsNat DEF TypeOK
            <6> QED BY <6>1, <6>3, <6>4
          <5> QED BY <5>1, <5>2, <1>c, <1>b
        <4> QED BY <4>2, <4>3, <4>4, <2>2 DEF EntryOK
      <3>2. CASE ~(tt[k] = None \/ tt[k].depth <= d)
        <4>1. tt'[k] = tt[k] /\ tt[k] # None /\ ~(tt[k].depth <= d)
          BY <1>a, <3>2 DEF StoreRule
        <4>2. \E i \in 1..Len(log') : log'[i].key = k /\ tt'[k] = Entry(log'[i].depth, log'[i].data)
          BY <4>1, <3>0, <1>c, <1>b DEF EntryOK
        <4>3. \A i \in 1..Len(log') : log'[i].key = k => log'[i].depth <= tt'[k].depth
          <5> SUFFICES ASSUME NEW i \in 1..Len(log'), log'[i].key = k PROVE log'[i].depth <= tt[k].depth
            BY <4>1
          <5>0. tt[k].depth \in Int /\ d \in Nat
            BY DepthsNat DEF TypeOK
          <5>1. CASE i = Len(log) + 1
            BY <5>1, <1>c, <4>1, <5>0
          <5>2. CASE i \in 1..Len(log)
            BY <5>2, <1>c, <4>1, <3>0 DEF EntryOK
          <5> QED BY <5>1, <5>2, <1>c, <1>b
        <4> QED BY <4>1, <4>2, <4>3, <2>2 DEF EntryOK
      <3> QED BY <3>1, <3>2
    <2> QED BY <2>1, <2>2
  <1> QED BY <1>1, <1>2

THEOREM RetrieveInv == ASSUME IndInv, NEW k \in Keys, Retrieve(k) PROVE IndInv'
  BY DEF Retrieve, IndInv, TypeOK, EntryOK

THEOREM Invariance == SpecU => []IndInv
  <1>1. Init => IndInv
    BY InitInv
  <1>2. IndInv /\ [NextU]_vars => IndInv'
    <2> SUFFICES ASSUME IndInv, [NextU]_vars PROVE IndInv'
      OBVIOUS
    <2>1. CASE StoreAny
      BY <2>1, StoreInv DEF StoreAny
    <2>2. CASE RetrieveAny
      BY <2>2, RetrieveInv DEF RetrieveAny
    <2>3. CASE UNCHANGED vars
      BY <2>3 DEF vars, IndInv, TypeOK, EntryOK
    <2> QED BY <2>1, <2>2, <2>3 DEF NextU
  <1> QED BY <1>1, <1>2, PTL DEF SpecU

(* The statements of C15, from the invariant and the step rule *)
\* a lookup answers nothing or data stored under exactly that key
THEOREM OnlyStoredU == IndInv => \A k \in Keys : tt[k] # None =>
                          \E i \in 1..Len(log) : log[i].key = k /\ tt[k] = Entry(log[i].depth, log[i].data)
  BY DEF IndInv, EntryOK
\* a shallower store never replaces a deeper entry, an equal or deeper one does; other keys are untouched
THEOREM DeepestWinsU == ASSUME TypeOK, NEW k \in Keys, NEW d \in Depths, NEW x \in Data, Store(k, d, x)
                        PROVE /\ (tt[k] # None /\ d < tt[k].depth) => tt'[k] = tt[k]
                              /\ ~(tt[k] # None /\ d < tt[k].depth) => tt'[k] = Entry(d, x)
                              /\ \A k2 \in Keys \ {k} : tt'[k2] = tt[k2]
  <1>0. tt[k].depth \in Int /\ d \in Nat
    BY DepthsNat DEF TypeOK
  <1>1. tt' = StoreRule(tt, k, d, x)
    BY DEF Store
  <1> QED BY <1>0, <1>1 DEF StoreRule, TypeOK
=============================================================================
