------------------------------ MODULE MateTrace ------------------------------
(***************************************************************************)
(* C08, implementation -> specification.  The harness proposes candidate   *)
(* positions and logs what completed searches of a fresh engine answered.  *)
(* MateInOne and AllowsMateInOne are recomputed HERE from ChessRules; a     *)
(* candidate the specification does not confirm is skipped (counted).      *)
(***************************************************************************)
EXTENDS ChessRules, Json, IOUtils

Rec == ndJsonDeserialize(IOEnv.TRACE)
StuckAt == IF "STUCK" \in DOMAIN IOEnv THEN atoi(IOEnv.STUCK) ELSE 0

VARIABLES l, confirmed, skipped
vars == <<l, confirmed, skipped>>
TInit == l = 1 /\ confirmed = 0 /\ skipped = 0
IsEvent(x) == l <= Len(Rec) /\ Rec[l].ev = x /\ l' = l + 1

Texts(S) == {Uci(m) : m \in S}
Answers(e, ds) == {e.answers[i][2] : i \in {j \in 1..Len(e.answers) : e.answers[j][1] \in ds}}

\* applicable: the specification confirms the candidate
M1Applies(p) == Valid(p) /\ MateInOne(p) # {}
DefApplies(p) == /\ Valid(p) /\ MateInOne(p) = {}
                 /\ LET A == {m \in Legal(p) : AllowsMateInOne(p, m)} IN A # {} /\ A # Legal(p)

M1Checks(e, p) == [C08_mate_in_one_is_played |-> Answers(e, 1..4) \subseteq Texts(MateInOne(p))]
DefChecks(e, p) == [C08_avoidable_mate_not_allowed |->
                      Answers(e, 2..3) \cap Texts({m \in Legal(p) : AllowsMateInOne(p, m)}) = {}]

TMate == /\ IsEvent("mate")
         /\ LET e == Rec[l]  p == FromJson(e.pos)
                app == IF e.kind = "m1" THEN M1Applies(p) ELSE DefApplies(p)
            IN IF app
               THEN /\ LET c == IF e.kind = "m1" THEN M1Checks(e, p) ELSE DefChecks(e, p) IN \A k \in DOMAIN c : c[k]
                    /\ confirmed' = confirmed + 1 /\ UNCHANGED skipped
               ELSE skipped' = skipped + 1 /\ UNCHANGED confirmed
TNext == TMate
TSpec == TInit /\ [][TNext]_vars

Diag == (l = StuckAt /\ l <= Len(Rec)) =>
          LET e == Rec[l]  p == FromJson(e.pos)
          IN PrintT(<<"DIAG", l, e.fen, e.kind, e.answers,
                      IF e.kind = "m1" THEN M1Checks(e, p) ELSE DefChecks(e, p),
                      "mates", Texts(MateInOne(p)),
                      "allowing", IF e.kind = "def" THEN Texts({m \in Legal(p) : AllowsMateInOne(p, m)}) ELSE {}>>)
Counts == (l = Len(Rec) + 1) => PrintT(<<"CONFIRMED", confirmed, skipped>>)
Accepted == LET d == TLCGet("stats").diameter
            IN IF d = Len(Rec) + 1 THEN TRUE ELSE Print(<<"REJECTED", d>>, FALSE)
=============================================================================
