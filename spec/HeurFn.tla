-------------------------------- MODULE HeurFn --------------------------------
(***************************************************************************)
(* The container operations of Heur.tla as constant-level operators on     *)
(* values (no variables), so that both Heur.tla (the containers as a state *)
(* machine) and SearchTrace.tla (the containers inside the running search) *)
(* use the same definitions.                                               *)
(***************************************************************************)
EXTENDS Integers, Sequences

\* killer moves: k is [0..maxply-1 -> sequence of at most two move ids, most recent first]
KStoreF(k, m, ply, maxply) ==
  IF ply >= maxply THEN k
  ELSE IF k[ply] # <<>> /\ k[ply][1] = m THEN k
  ELSE [k EXCEPT ![ply] = IF k[ply] = <<>> THEN <<m>> ELSE <<m, k[ply][1]>>]
IsKillerF(k, m, ply, maxply) == ply < maxply /\ \E j \in 1..Len(k[ply]) : k[ply][j] = m

\* history heuristic (written so that no intermediate value exceeds cap)
SatAddF(x, inc, cap) == IF x > cap - inc THEN cap ELSE x + inc
AgeF(h) == [m \in DOMAIN h |-> h[m] \div 2]

(* move-ordering keys of src/search.rs (sort_by_cached_key: ascending, stable).                          *)
(* Kinds: 1 pawn .. 6 king.  NAMED DEVIATION: MVV_LVA_SCORES is laid out victim King..Pawn but indexed   *)
(* with Piece::index() = Pawn 0 .. King 5, so a pawn victim scores 0 and a knight victim scores highest: *)
(* the least valuable victim is tried first.  Ordering only - no listed property depends on it.          *)
MvvLva(victim, attacker) == IF victim = 1 THEN 0 ELSE (7 - victim) * 10 + (attacker - 1)
TypeQuiet == 0  TypeCapture == 1  TypeEnPassant == 2  TypeCastle == 3  TypePromotion == 4
\* a: [type, ak (attacker kind), vk (kind on the target square, 0 if empty), mid, hid]
OrderKey(a, isTableMove, isKiller, historyScore) ==
  IF isTableMove THEN -2147483647
  ELSE IF a.type \in {TypeCapture, TypeEnPassant} /\ a.vk > 0 THEN -MvvLva(a.vk, a.ak) - 1000
  ELSE IF isKiller THEN -500
  ELSE IF a.type = TypePromotion THEN -400
  ELSE IF a.type = TypeQuiet THEN -historyScore
  ELSE 0
QuietOrderKey(a) == IF a.type = TypeEnPassant THEN -10 ELSE IF a.vk > 0 THEN -MvvLva(a.vk, a.ak) ELSE 0
=============================================================================
