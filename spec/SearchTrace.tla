----------------------------- MODULE SearchTrace -----------------------------
(***************************************************************************)
(* Step-level binding of Search.tla to src/search.rs.                      *)
(*                                                                         *)
(* The event sink of the real search (cfg flounder_verif) records one      *)
(* event per critical section: node entry (position, depth, ply, window,   *)
(* node and poll counters), the ordered move list, every return of negamax *)
(* (kind, score, move, bound label), quiescence entry / return, each kept  *)
(* iteration and the final result together with the whole transposition    *)
(* table.  The harness turns the recorded boards into a game graph         *)
(* (Moves / Tact / Chk / static evaluation per position id).               *)
(*                                                                         *)
(* Here TLC EXECUTES the PlusCal algorithm of Search.tla on that graph -   *)
(* the very actions that were model-checked on the abstract graphs - and   *)
(* every recorded event has to match the step the specification takes:     *)
(* the only things taken from the log are the two choices the              *)
(* specification leaves open, the order of the moves at a node and the     *)
(* deadline (Budget-th poll answers true, the hook's semantics).  The      *)
(* order is not just accepted: it must be the permutation order_moves /    *)
(* order_captures produce - table move, captures by the MVV-LVA table,      *)
(* killers of the ply, promotions, quiet moves by history, the rest;       *)
(* stable - with the killer slots and history scores maintained here by    *)
(* the operators of HeurFn.tla exactly as the search maintains them.       *)
(* Everything else - windows handed to children, cut-offs, repetition and  *)
(* table answers, mate / stalemate scores, bound labels, what is stored    *)
(* and what is not after the deadline, the kept iteration, the fallback    *)
(* move - is computed by the specification and compared.                   *)
(*                                                                         *)
(* A mismatch means the code no longer follows Search.tla step by step.    *)
(* That is reported as SPEC-DRIFT (the listed properties do not prescribe  *)
(* the algorithm), never as a violation; the property-level audits decide. *)
(***************************************************************************)
EXTENDS Search, Json, IOUtils, HeurFn

Data == JsonDeserialize(IOEnv.TRACE)
Evs == Data.events
StuckAt == IF "STUCK" \in DOMAIN IOEnv THEN atoi(IOEnv.STUCK) ELSE 0

TN == Data.graph.n
ToSet(s) == {s[k] : k \in 1..Len(s)}
TGr == [ N     |-> TN,
         Moves |-> Data.graph.moves,
         Tact  |-> [q \in 1..TN |-> ToSet(Data.graph.tact[q])],
         Chk   |-> Data.graph.chk,
         Hist  |-> Data.graph.hist ]
TEv == Data.graph.ev
TD == Data.D
TAborts == Data.aborts
TBudget == IF Data.budget = 0 THEN 1000000000 ELSE Data.budget
RealINF == 32767                      \* src/search.rs INFINITY
RealMATE == 2147482647                \* src/search.rs CHECKMATE_SCORE = i32::MAX - 1000
TVals == Int

\* the ordering heuristics inside the running search (src/killer_moves.rs, src/history.rs via HeurFn.tla):
\* kl = killer slots per ply, hs = history score per from/to key; both live as long as the Searcher
VARIABLES l, kl, hs
tvars == <<vars, l, kl, hs>>
MA == Data.graph.mattr            \* per position, per generated move: <<type, attacker kind, kind on target, move id, history key>>
Attr(q, j) == [type |-> MA[q][j][1], ak |-> MA[q][j][2], vk |-> MA[q][j][3], mid |-> MA[q][j][4], hid |-> MA[q][j][5]]
IdxOf(q, c) == CHOOSE j \in 1..Len(Moves[q]) : Moves[q][j] = c
KillerPlies == 64
HistCap == 2147483647
S == "s"
Lab == pc[S]
Has == l <= Len(Evs)
E == Evs[l]

\* the two open choices of the specification, taken from the log (only ever evaluated at n1c / q0)
TOrdered(q, tm, o) == E.ms
TQOrd(q, o) == E.ms

PermOf(s, t) == /\ Len(s) = Len(t)
                /\ ToSet(s) = ToSet(t)
                /\ Cardinality(ToSet(s)) = Len(s)
IsMoveOf(q, m) == \E j \in 1..Len(Moves[q]) : Moves[q][j] = m

\* order_moves: ascending by key, stable with respect to the generation order
NKey(q, j, tm, pl) == LET a == Attr(q, j) IN OrderKey(a, Moves[q][j] = tm, IsKillerF(kl, a.mid, pl, KillerPlies), hs[a.hid])
SortedBy(q, order, Key(_)) ==
  \A x \in 1..(Len(order) - 1) :
     LET gx == IdxOf(q, order[x])  gy == IdxOf(q, order[x + 1])
     IN Key(gx) < Key(gy) \/ (Key(gx) = Key(gy) /\ gx < gy)
\* order_captures: the quiescence list is generated in the order of graph.tact (all moves when in check)
QGenIdx(q, c) == IF Chk[q] THEN IdxOf(q, c)
                 ELSE CHOOSE x \in 1..Len(Data.graph.tact[q]) : Moves[q][Data.graph.tact[q][x]] = c
QSorted(q, order) ==
  \A x \in 1..(Len(order) - 1) :
     LET kx == QuietOrderKey(Attr(q, IdxOf(q, order[x])))  ky == QuietOrderKey(Attr(q, IdxOf(q, order[x + 1])))
     IN kx < ky \/ (kx = ky /\ QGenIdx(q, order[x]) < QGenIdx(q, order[x + 1]))

Pops == Len(stack'[S]) < Len(stack[S])
StopAfterPoll == armed /\ polls' >= Budget       \* the answer of the poll made in this step (PollMode)

StepS == quiesce(S) \/ negamax(S) \/ find_best_move(S) \/ searcher

Pre == IF Lab = "n0" THEN Has /\ E.e = "N"
       ELSE IF Lab = "n1c" THEN Has /\ E.e = "O" /\ Len(E.ms) > 0
       ELSE IF Lab = "q0" THEN Has /\ E.e = "Q"
       ELSE IF Lab = "f0" THEN Has /\ E.e = "S"
       ELSE TRUE

BoundLabel == IF nb[S] <= a0[S] THEN "U" ELSE IF nb[S] >= beta[S] THEN "L" ELSE "E"
TableMatches(t) == /\ \A j \in 1..Len(t) : /\ t[j][1] \in Pos
                                           /\ tt[t[j][1]] = [depth |-> t[j][2], score |-> t[j][3], bound |-> t[j][4], move |-> t[j][5]]
                   /\ Cardinality({q \in Pos : tt[q].depth >= 0}) = Len(t)

Post ==
  IF Lab = "n0" THEN
     /\ l' = l + 1
     /\ E.p = p[S] /\ E.d = depth[S] /\ E.ply = ply[S] /\ E.a = alpha[S] /\ E.b = beta[S]
     /\ E.nodes = nodes' /\ E.polls = polls
  ELSE IF Lab = "n1c" THEN
     /\ l' = l + 1
     /\ PermOf(E.ms, Moves[p[S]])
     /\ (e[S].move # NoMove /\ IsMoveOf(p[S], e[S].move)) => E.ms[1] = e[S].move
     /\ LET q == p[S]  tm == e[S].move  pl == ply[S]  K(j) == NKey(q, j, tm, pl) IN SortedBy(q, E.ms, K)
  ELSE IF Lab = "q0" THEN
     /\ l' = l + 1
     /\ E.p = qp[S] /\ E.a = qa[S] /\ E.b = qb[S] /\ E.nodes = nodes' /\ E.polls = polls
     /\ PermOf(E.ms, QMoves(qp[S]))
     /\ QSorted(qp[S], E.ms)
  ELSE IF Lab \in {"nr", "n0b", "n1r", "n1b", "n4"} /\ Pops THEN
     /\ Has /\ E.e = "X" /\ l' = l + 1
     /\ E.s = ret' /\ E.m = retMove'
     /\ E.k = (CASE Lab = "nr" -> "rep" [] Lab = "n0b" -> "tt" [] Lab = "n1r" -> "q" [] Lab = "n1b" -> "term"
                 [] Lab = "n4" -> IF StopAfterPoll THEN "abort" ELSE "done")
     /\ (Lab = "n4" /\ ~StopAfterPoll) => E.bd = BoundLabel
     /\ E.polls = polls'
  ELSE IF Lab \in {"q1", "q3b", "q4"} /\ Pops THEN
     /\ Has /\ E.e = "Y" /\ l' = l + 1
     /\ E.s = ret'
  ELSE IF Lab = "f3" /\ ~StopAfterPoll THEN
     /\ Has /\ E.e = "K" /\ l' = l + 1
     /\ E.d = curD /\ E.s = ret /\ E.m = retMove
  ELSE IF Lab = "f9" THEN
     /\ Has /\ E.e = "R" /\ l' = l + 1
     /\ E.s = best /\ E.m = bestMove
     /\ TableMatches(E.tt)
     /\ hist = GameHist
  ELSE IF Lab = "f0" THEN
     /\ l' = l + 1
     /\ E.round = round
  ELSE l' = l

\* what the search does to the heuristics: history is aged when a search starts; a QUIET move that causes a
\* cut-off becomes the primary killer of its ply and earns depth^2 history
HeurStep ==
  IF Lab = "f0" THEN kl' = kl /\ hs' = AgeF(hs)
  ELSE IF Lab = "n3" /\ Max2(alpha[S], -ret) >= beta[S]
       THEN LET a == Attr(p[S], IdxOf(p[S], ms[S][i[S]]))
            IN IF a.type = TypeQuiet
               THEN /\ kl' = KStoreF(kl, a.mid, ply[S], KillerPlies)
                    /\ hs' = [hs EXCEPT ![a.hid] = SatAddF(hs[a.hid], depth[S] * depth[S], HistCap)]
               ELSE UNCHANGED <<kl, hs>>
  ELSE UNCHANGED <<kl, hs>>

TNext == Pre /\ StepS /\ Post /\ HeurStep

TInit == /\ ev = TEv
         /\ ord = "fwd"
         /\ Init
         /\ l = 1
         /\ kl = [q \in 0..(KillerPlies - 1) |-> <<>>]
         /\ hs = [h \in 1..Data.graph.nh |-> 0]
         /\ TLCSet(1, 1)
         /\ TLCSet(2, 0)

TSpec == TInit /\ [][TNext]_tvars

\* progress registers (single worker): highest event index reached, and whether the algorithm terminated
Track == /\ TLCSet(1, IF l > TLCGet(1) THEN l ELSE TLCGet(1))
         /\ (pc[S] = "Done" /\ l = Len(Evs) + 1) => TLCSet(2, 1)

Frame == IF Lab \in {"q0", "q1", "q2", "q2c", "q3", "q3b", "q4"}
         THEN [proc |-> "quiesce", at |-> Lab, pos |-> qp[S], a |-> qa[S], b |-> qb[S], ret |-> ret]
         ELSE IF Lab \in {"n0", "nr", "np", "n0b", "n1", "n1r", "n1b", "n1c", "n2", "n2c", "n3", "n4"}
         THEN [proc |-> "negamax", at |-> Lab, pos |-> p[S], depth |-> depth[S], ply |-> ply[S], a |-> alpha[S], b |-> beta[S],
               best |-> nb[S], bestmove |-> nbm[S], entry |-> e[S], ret |-> ret, retmove |-> retMove, polls |-> polls, nodes |-> nodes]
         ELSE [proc |-> "find_best_move", at |-> Lab, depth |-> curD, best |-> best, bestmove |-> bestMove, ret |-> ret, retmove |-> retMove,
               polls |-> polls, round |-> round]
Diag == (StuckAt > 0 /\ l = StuckAt) =>
          PrintT(<<"DIAG", l, IF Has THEN E ELSE "end of log", "specification is at", Frame>>)

Accepted == IF TLCGet(2) = 1 THEN TRUE ELSE Print(<<"REJECTED", TLCGet(1)>>, FALSE)
=============================================================================
