----------------------------- MODULE PromptTrace -----------------------------
(***************************************************************************)
(* C07, implementation -> specification.  For a position, a depth and a    *)
(* deadline expressed in nodes (should_stop() answers true once k nodes    *)
(* have been entered) the harness logs how far the search ran: nodes       *)
(* entered in total, nodes entered when should_stop() first answered true, *)
(* the largest number of nodes entered between two consecutive             *)
(* evaluations of should_stop(), and whether a move came back.             *)
(*                                                                         *)
(* The bounds are those Search.tla establishes by model checking (Prompt): *)
(* under a node budget at most 1 node is entered after the deadline (the   *)
(* extra unit is negamax at depth 0 entering quiescence without a poll);   *)
(* between two polls at most 2 nodes are entered, which bounds the work    *)
(* after a wall-clock deadline falling anywhere; nothing at all is entered *)
(* after a poll has answered true.                                         *)
(***************************************************************************)
EXTENDS ChessRules, Json, IOUtils

Rec == ndJsonDeserialize(IOEnv.TRACE)
StuckAt == IF "STUCK" \in DOMAIN IOEnv THEN atoi(IOEnv.STUCK) ELSE 0
AfterBoundBudget == 1
GapBound == 2

VARIABLES l, skipped
vars == <<l, skipped>>
TInit == l = 1 /\ skipped = 0
IsEvent(x) == l <= Len(Rec) /\ Rec[l].ev = x /\ l' = l + 1

Checks(e) ==
  IF "panic" \in DOMAIN e THEN [C07_search_survives |-> FALSE]
  ELSE [C07_polls_at_all |-> e.polls >= 1,
        C07_at_most_one_node_after_the_deadline |-> e.final <= e.k + AfterBoundBudget,
        C07_nothing_entered_after_a_true_poll |-> e.at_stop >= 0 => e.final = e.at_stop,
        C07_every_loop_polls |-> e.max_gap <= GapBound]

TPrompt == /\ IsEvent("prompt")
           /\ IF Valid(FromJson(Rec[l].pos))
              THEN (LET c == Checks(Rec[l]) IN \A k \in DOMAIN c : c[k]) /\ UNCHANGED skipped
              ELSE skipped' = skipped + 1
\* wall clock: `go` with a budget B on the real binary, repeated until one run answers within the tolerance (scheduling noise can
\* only add to an answer time, so the verdict is on the SMALLEST overrun); B is the budget the real parser hands to the search
WallTol == 500
MinOf(q) == CHOOSE x \in {q[i] : i \in 1..Len(q)} : \A j \in 1..Len(q) : x <= q[j]
WallChecks(e) == [C07_go_is_answered |-> e.answered,
                  C07_answers_within_the_budget_plus_a_small_constant |-> Len(e.overrun_ms) >= 1 /\ MinOf(e.overrun_ms) <= WallTol]
TWall == /\ IsEvent("wall")
         /\ IF Valid(FromJson(Rec[l].pos))
            THEN (LET c == WallChecks(Rec[l]) IN \A k \in DOMAIN c : c[k]) /\ UNCHANGED skipped
            ELSE skipped' = skipped + 1
TNext == TPrompt \/ TWall
TSpec == TInit /\ [][TNext]_vars

Diag == (l = StuckAt /\ l <= Len(Rec)) =>
          IF Rec[l].ev = "wall" THEN PrintT(<<"DIAG", l, Rec[l].fen, Rec[l].go, WallChecks(Rec[l]), Rec[l].budget_ms, Rec[l].overrun_ms>>)
          ELSE PrintT(<<"DIAG", l, Rec[l].fen, "depth", Rec[l].depth, Checks(Rec[l]),
                   [x \in {"k", "final", "at_stop", "max_gap", "polls"} \cap DOMAIN Rec[l] |-> Rec[l][x]]>>)
Skipped == (l = Len(Rec) + 1) => PrintT(<<"SKIPPED-NOT-VALID", skipped>>)
Accepted == LET d == TLCGet("stats").diameter
            IN IF d = Len(Rec) + 1 THEN TRUE ELSE Print(<<"REJECTED", d>>, FALSE)
=============================================================================
