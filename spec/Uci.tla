--------------------------------- MODULE Uci ---------------------------------
(***************************************************************************)
(* The UCI protocol layer (src/uci.rs): one action per command handled by  *)
(* handle_command, plus end of input.  Composes the rules (ChessRules) with *)
(* the protocol state.  The searcher's internal state (table, killers,     *)
(* history heuristics) is deliberately ABSENT: the protocol properties     *)
(* (C03, C04, C09, C12, C13, C16) must hold whatever it contains, so the   *)
(* specification of `go` is a relation on the output, not a function.      *)
(*                                                                         *)
(* State                                                                   *)
(*   alive  the process is running                                         *)
(*   exit   exit status once it is not (-1 while alive)                *)
(*   board  the position set by the last position / ucinewgame command     *)
(*   hist   the positions of the game given by the most recent position    *)
(*          command: start, after each move, ..., current (C09)            *)
(*   epoch  number of ucinewgame commands / process starts so far: all     *)
(*          searcher memory belongs to an epoch (C13)                      *)
(*   out    the lines printed in answer to the last command (tokenised)    *)
(***************************************************************************)
EXTENDS ChessRules

VARIABLES alive, exit, board, hist, epoch, out
uvars == <<alive, exit, board, hist, epoch, out>>

UInit == /\ alive = TRUE /\ exit = -1
         /\ board = StartPos /\ hist = <<StartPos>>
         /\ epoch = 0 /\ out = <<>>

(* ---------------- output shapes ---------------- *)
\* an output line is a record with field t: "id" | "uciok" | "readyok" | "info" | "bestmove" | "other"
IsHandshake(o) == /\ Len(o) >= 2
                  /\ o[Len(o)].t = "uciok"
                  /\ \A i \in 1..(Len(o) - 1) : o[i].t = "id"
IsReadyOk(o) == Len(o) = 1 /\ o[1].t = "readyok"
Silent(o) == o = <<>>

LegalTexts(p) == {Uci(m) : m \in Legal(p)}
\* C03: zero or more info lines, then exactly one bestmove line; the move is legal in the position
\* last set, "0000" exactly when there is no legal move
IsGoAnswer(o, p) ==
  /\ Len(o) >= 1
  /\ o[Len(o)].t = "bestmove"
  /\ \A i \in 1..(Len(o) - 1) : o[i].t = "info"
  /\ LET lt == LegalTexts(p)
     IN IF lt = {} THEN o[Len(o)].move = "0000" ELSE o[Len(o)].move \in lt

(* ---------------- commands ---------------- *)
CmdUci(o) == /\ alive /\ IsHandshake(o)
             /\ out' = o /\ UNCHANGED <<alive, exit, board, hist, epoch>>

CmdIsReady(o) == /\ alive /\ IsReadyOk(o)
                 /\ out' = o /\ UNCHANGED <<alive, exit, board, hist, epoch>>

\* src/uci.rs:67  replaces the board and the whole Searcher
\* (what, if anything, is printed in answer to ucinewgame / position is not specified by any property)
CmdNewGame(o) == /\ alive
                 /\ board' = StartPos /\ hist' = <<StartPos>>
                 /\ epoch' = epoch + 1
                 /\ out' = o /\ UNCHANGED <<alive, exit>>

\* positions of a game: start, after each move
RECURSIVE GameFrom(_, _)
GameFrom(p, ms) == IF ms = <<>> THEN <<p>> ELSE <<p>> \o GameFrom(Apply(p, Head(ms)), Tail(ms))
\* every move of the list is legal where it is played
RECURSIVE LegalLine(_, _)
LegalLine(p, ms) == IF ms = <<>> THEN TRUE
                    ELSE Head(ms) \in Legal(p) /\ LegalLine(Apply(p, Head(ms)), Tail(ms))

\* C04: position (startpos | fen <valid six-field FEN>) [moves <legal moves>]
CmdPosition(start, ms, o) ==
  /\ alive
  /\ Valid(start) /\ LegalLine(start, ms)
  /\ LET g == GameFrom(start, ms) IN board' = g[Len(g)] /\ hist' = g
  /\ out' = o /\ UNCHANGED <<alive, exit, epoch>>

\* C03: any go with a depth limit, a move time or clocks is answered by exactly one legal bestmove
CmdGo(o) == /\ alive /\ IsGoAnswer(o, board)
            /\ out' = o /\ UNCHANGED <<alive, exit, board, hist, epoch>>

\* C16: unknown and blank lines are ignored without output or failure
CmdUnknown(o) == /\ alive /\ Silent(o)
                 /\ out' = o /\ UNCHANGED <<alive, exit, board, hist, epoch>>

\* C16: quit and end of input terminate the process with status zero
CmdQuit == /\ alive /\ alive' = FALSE /\ exit' = 0
           /\ out' = <<>> /\ UNCHANGED <<board, hist, epoch>>
Eof == /\ alive /\ alive' = FALSE /\ exit' = 0
       /\ out' = <<>> /\ UNCHANGED <<board, hist, epoch>>

(* ---------------- C09: repetition as seen from the current position ---------------- *)
Occurrences(q) == Cardinality({i \in 1..Len(hist) : hist[i] = q})
\* a successor position that has already occurred twice in the game would occur a third time
RepDraw(q) == Occurrences(q) >= 2

(* ---------------- invariants of the protocol state ---------------- *)
UciTypeOK == /\ alive \in BOOLEAN
             /\ (alive <=> exit = -1)
             /\ Len(hist) >= 1 /\ hist[Len(hist)] = board
BoardValid == Valid(board)
ExitsCleanly == ~alive => exit = 0
=============================================================================
