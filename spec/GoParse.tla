------------------------------- MODULE GoParse -------------------------------
(***************************************************************************)
(* The go-command parser as a whole (src/uci.rs handle_go_command and      *)
(* calculate_move_time), transcribed token by token: one step of Scan per  *)
(* iteration of the code's `while i < parts.len()` loop.                   *)
(*                                                                         *)
(* A token is [s: text, n: value]; n is the token's value when the text is *)
(* a decimal number (what str::parse::<u64> accepts), -1 otherwise.        *)
(* Result: [depth, limit] with limit = -1 for "no time limit".             *)
(*                                                                         *)
(* What the transcription pins that no listed property prescribes (named   *)
(* deviations from what a GUI author might expect):                        *)
(*   - a depth above 64 is clamped, one that does not fit a u8 is ignored  *)
(*     (the value token is still consumed);                                *)
(*   - the first clock token hands the REST of the line to the clock       *)
(*     scanner and then skips eight tokens, so "go wtime 1 btime 2 depth 3" *)
(*     ignores the depth, and anything after a clock token that is not a   *)
(*     clock token is skipped by the scanner;                              *)
(*   - a later movetime / clock token overrides an earlier one;            *)
(*   - the allocation is ModelBudget of TimeCtl.tla.                       *)
(* C12 constrains only the RELATION between the limit and the mover's own  *)
(* clock (TimeCtl.tla FitsClock / OwnClockOnly); a mismatch with this      *)
(* module is SPEC-DRIFT, not a violation.                                  *)
(*                                                                         *)
(* Used two ways: TLC -simulate draws token lines (GNext) and prints them;  *)
(* GoParseTrace.tla compares what the real parser handed to the search     *)
(* (hook verif_go_budget) with Parse.                                      *)
(***************************************************************************)
EXTENDS Integers, Sequences, FiniteSets, TLC, Json

Min2(a, b) == IF a <= b THEN a ELSE b
Max2(a, b) == IF a >= b THEN a ELSE b
ModelBudget(own, inc) == Min2((Max2(own - 5000, 0) \div 25) + inc, own \div 2)

ClockNames == {"wtime", "btime", "winc", "binc"}
IsNum(t) == t.n >= 0

\* calculate_move_time: scan from index `from` to the end of the line
RECURSIVE Clocks(_, _, _)
Clocks(toks, j, acc) ==
  IF j > Len(toks) THEN acc
  ELSE IF toks[j].s \in ClockNames
       THEN Clocks(toks, j + 2,
                   IF j + 1 <= Len(toks) THEN [acc EXCEPT ![toks[j].s] = IF IsNum(toks[j + 1]) THEN toks[j + 1].n ELSE 0] ELSE acc)
       ELSE Clocks(toks, j + 1, acc)
Allocate(toks, j, stm) ==
  LET c == Clocks(toks, j, [wtime |-> 0, btime |-> 0, winc |-> 0, binc |-> 0])
  IN IF stm = "w" THEN ModelBudget(c.wtime, c.winc) ELSE ModelBudget(c.btime, c.binc)

\* handle_go_command: toks[1] is "go"
RECURSIVE Scan(_, _, _, _)
Scan(toks, j, stm, r) ==
  IF j > Len(toks) THEN r
  ELSE LET t == toks[j].s  more == j + 1 <= Len(toks) IN
       IF t = "depth" THEN
          IF more THEN Scan(toks, j + 2, stm, IF IsNum(toks[j + 1]) /\ toks[j + 1].n <= 255
                                              THEN [r EXCEPT !.depth = Min2(toks[j + 1].n, 64)] ELSE r)
          ELSE Scan(toks, j + 1, stm, r)
       ELSE IF t = "movetime" THEN
          IF more THEN Scan(toks, j + 2, stm, IF IsNum(toks[j + 1]) THEN [r EXCEPT !.limit = toks[j + 1].n] ELSE r)
          ELSE Scan(toks, j + 1, stm, r)
       ELSE IF t \in ClockNames THEN Scan(toks, j + 8, stm, [r EXCEPT !.limit = Allocate(toks, j, stm)])
       ELSE IF t = "infinite" THEN Scan(toks, j + 1, stm, [depth |-> 64, limit |-> -1])
       ELSE Scan(toks, j + 1, stm, r)
Parse(toks, stm) == Scan(toks, 2, stm, [depth |-> 64, limit |-> -1])

(* ---------------- generator: random token lines (run with -simulate) ---------------- *)
Words == <<"depth", "depth", "movetime", "wtime", "btime", "winc", "binc", "wtime", "btime", "infinite", "ponder", "searchmoves", "xyz">>
Numbers == <<0, 1, 3, 5, 63, 64, 65, 200, 255, 256, 300, 999, 1000, 4999, 5000, 5001, 5026, 60000, 3600000>>
Junk == <<"abc", "-1", "1.5", "e2e4">>
Tok(s, n) == [s |-> s, n |-> n]
RandTok(d) == LET k == RandomElement(1..10)
              IN IF k <= 5 THEN LET w == Words[RandomElement(1..Len(Words))] IN Tok(w, -1)
                 ELSE IF k <= 9 THEN LET x == Numbers[RandomElement(1..Len(Numbers))] IN Tok(ToString(x), x)
                 ELSE Tok(Junk[RandomElement(1..Len(Junk))], -1)
RECURSIVE RandLine(_, _)
RandLine(k, acc) == IF k = 0 THEN acc ELSE RandLine(k - 1, Append(acc, RandTok(Len(acc))))
RECURSIVE Join(_)
Join(toks) == IF toks = <<>> THEN "" ELSE toks[1].s \o (IF Len(toks) > 1 THEN " " ELSE "") \o Join(Tail(toks))

VARIABLES line, stm
gvars == <<line, stm>>
NewLine(d) == <<Tok("go", -1)>> \o RandLine(RandomElement(0..10), <<>>)
GInit == line = <<Tok("go", -1)>> /\ stm = "w"
GNext == /\ PrintT(<<"@@", ToJson([k |-> "go", text |-> Join(line), stm |-> stm, toks |-> line,
                                     go |-> [wtime |-> -1, btime |-> -1, winc |-> -1, binc |-> -1]])>>)
         /\ line' = NewLine(line)
         /\ stm' = RandomElement({"w", "b"})
GSpec == GInit /\ [][GNext]_gvars

\* sanity of the transcription itself: whenever clock tokens decide the limit it fits the mover's clock
Sane == LET r == Parse(line, stm) IN r.depth \in 0..64 /\ r.limit >= -1
=============================================================================
