------------------------------ MODULE ZobTrace ------------------------------
(***************************************************************************)
(* C11, implementation -> specification.  Events recorded through the      *)
(* public ZobristTable::hash only:                                         *)
(*  "draw"   a fresh ZobristTable::new(): the 837 keys recovered by        *)
(*           differencing hashes of boards that differ in one feature;     *)
(*  "pos"    a position (reached by make_move along a game, or re-built    *)
(*           from its projection with other move counters) and its hash;   *)
(*  "var"    a single-component perturbation of the last position and its  *)
(*           hash.                                                         *)
(* Semantic checks (verdict): the map position -> hash is a function and   *)
(* injective on everything seen under one draw; every perturbation changes *)
(* the hash.  Structural check: hash = XOR of feature keys; when it holds  *)
(* on every event of a draw, KeysSeparate gives sensitivity for ALL        *)
(* positions under that draw.  If the structure does not hold the event is *)
(* counted as SPEC-DRIFT (the property does not prescribe XOR) and only    *)
(* the semantic checks decide.                                             *)
(***************************************************************************)
EXTENDS Zobrist, Json, IOUtils

Rec == ndJsonDeserialize(IOEnv.TRACE)
StuckAt == IF "STUCK" \in DOMAIN IOEnv THEN atoi(IOEnv.STUCK) ELSE 0

VARIABLES l, keys, seen, cur, drift, driftd
vars == <<l, keys, seen, cur, drift, driftd>>
NoKeys == [h0 |-> ZeroH, pc |-> <<>>, stm |-> ZeroH, cr |-> <<>>, ep |-> <<>>]
TInit == l = 1 /\ keys = NoKeys /\ seen = <<>> /\ cur = StartPos /\ drift = 0 /\ driftd = 0

IsEvent(e) == l <= Len(Rec) /\ Rec[l].ev = e /\ l' = l + 1

TDraw == /\ IsEvent("draw")
         /\ keys' = Rec[l].keys
         /\ seen' = <<>> /\ driftd' = 0 /\ UNCHANGED <<cur, drift>>

\* end of a draw: if hash = XOR of the recovered feature keys held on EVERY event of the draw, the
\* key-level conditions decide sensitivity / separation for all positions under this draw
EndChecks == IF driftd = 0 THEN KeysSeparate(keys) ELSE [C11_structure_does_not_hold_keys_not_judged |-> TRUE]
TEndDraw == /\ IsEvent("enddraw")
            /\ \A k \in DOMAIN EndChecks : EndChecks[k]
            /\ UNCHANGED <<keys, seen, cur, drift, driftd>>

\* seen: sequence of <<position, hash>> (searched linearly; a few hundred per draw)
HashesOf(p) == {seen[i][2] : i \in {j \in 1..Len(seen) : seen[j][1] = p}}
PossWith(h) == {seen[i][1] : i \in {j \in 1..Len(seen) : seen[j][2] = h}}
PosChecks(e, p) ==
  [C11_same_position_same_hash |-> HashesOf(p) \subseteq {e.h},
   C11_same_hash_same_position |-> PossWith(e.h) \subseteq {p}]
Structural(e, p) == HashOf(keys, p) = e.h

TPos == /\ IsEvent("pos")
        /\ LET e == Rec[l]  p == FromJson(e.pos)
           IN /\ \A k \in DOMAIN PosChecks(e, p) : PosChecks(e, p)[k]
              /\ seen' = Append(seen, <<p, e.h>>)
              /\ cur' = p
              /\ LET x == IF Structural(e, p) THEN 0 ELSE 1 IN drift' = drift + x /\ driftd' = driftd + x
        /\ UNCHANGED keys

Variant(e, p) == CASE e.kind = "square" -> SetSquare(p, e.sq, e.code)
                   [] e.kind = "side" -> FlipSide(p)
                   [] e.kind = "right" -> ToggleRight(p, e.right)
                   [] e.kind = "ep" -> SetEp(p, e.sq)
VarChecks(e, p, hp) ==
  [C11_single_change_changes_hash |-> Variant(e, p) # p => e.h # hp]

TVar == /\ IsEvent("var")
        /\ LET e == Rec[l]  hp == seen[Len(seen)][2]
           IN /\ \A k \in DOMAIN VarChecks(e, cur, hp) : VarChecks(e, cur, hp)[k]
              /\ LET x == IF Structural(e, Variant(e, cur)) THEN 0 ELSE 1 IN drift' = drift + x /\ driftd' = driftd + x
        /\ UNCHANGED <<keys, seen, cur>>

TNext == TDraw \/ TPos \/ TVar \/ TEndDraw
TSpec == TInit /\ [][TNext]_vars

Diag == (l = StuckAt /\ l <= Len(Rec)) =>
          PrintT(<<"DIAG", l, Rec[l].ev,
                   CASE Rec[l].ev = "enddraw" -> EndChecks
                     [] Rec[l].ev = "pos" -> PosChecks(Rec[l], FromJson(Rec[l].pos))
                     [] Rec[l].ev = "var" -> VarChecks(Rec[l], cur, seen[Len(seen)][2])
                     [] OTHER -> <<"no action allows", Rec[l].ev>>,
                   ToFEN4(cur)>>)
DriftCount == (l = Len(Rec) + 1) => PrintT(<<"DRIFT", drift>>)
Accepted == LET d == TLCGet("stats").diameter
            IN IF d = Len(Rec) + 1 THEN TRUE ELSE Print(<<"REJECTED", d>>, FALSE)
=============================================================================
