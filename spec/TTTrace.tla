------------------------------- MODULE TTTrace -------------------------------
(***************************************************************************)
(* Trace specification for C15: a history of store / retrieve calls        *)
(* recorded from the real TranspositionTable is a behaviour of TT.tla.     *)
(* Keys are logged as indices into the harness's list of (adversarial)     *)
(* 64-bit keys; data is the projected (eval, move, bound) triple as text.  *)
(* A retrieve that answered "nothing" while the model holds an entry is    *)
(* explained by the deviation action Evict (allowed by the property,       *)
(* counted); any other disagreement rejects the trace.                     *)
(***************************************************************************)
EXTENDS Integers, Sequences, FiniteSets, TLC, Json, IOUtils

Rec == ndJsonDeserialize(IOEnv.TRACE)
StuckAt == IF "STUCK" \in DOMAIN IOEnv THEN atoi(IOEnv.STUCK) ELSE 0
NKeys == 64
Keys == 0..(NKeys - 1)
Depths == 0..255
Data == STRING
MaxOps == 1000000
EmitOn == FALSE

VARIABLES tt, log, ret, l, evictions
INSTANCE TT

tvars == <<tt, log, ret, l, evictions>>
TInit == Init /\ l = 1 /\ evictions = 0

IsEvent(e) == l <= Len(Rec) /\ Rec[l].ev = e /\ l' = l + 1

TReset == IsEvent("new") /\ tt' = [k \in Keys |-> None] /\ log' = <<>> /\ UNCHANGED <<ret, evictions>>

TStore == /\ IsEvent("store")
          /\ Store(Rec[l].key, Rec[l].depth, Rec[l].data)
          /\ UNCHANGED evictions

\* the logged answer: -1 / "none" for nothing, else the entry's key index, depth and data
Answer(e) == IF e.found THEN Entry(e.rdepth, e.rdata) ELSE None
RetrieveChecks(e) ==
  [C15_key_of_answer   |-> e.found => e.rkey = e.key,
   C15_only_stored     |-> e.found => \E i \in 1..Len(log) : log[i].key = e.key /\ Answer(e) = Entry(log[i].depth, log[i].data),
   C15_latest_deepest  |-> e.found => Answer(e) = tt[e.key],
   C15_ref             |-> (e.found /\ evictions = 0) => Answer(e) = Ref(e.key)]

TRetrieve == /\ IsEvent("retrieve")
             /\ LET e == Rec[l] c == RetrieveChecks(e) IN
                /\ \A k \in DOMAIN c : c[k]
                /\ IF e.found \/ tt[e.key] = None
                   THEN Retrieve(e.key) /\ UNCHANGED evictions
                   ELSE \* Evict(k) . Retrieve(k)
                        /\ tt' = [tt EXCEPT ![e.key] = None]
                        /\ ret' = [key |-> e.key, val |-> None]
                        /\ evictions' = evictions + 1
                        /\ UNCHANGED log

TNext == TReset \/ TStore \/ TRetrieve
TSpec == TInit /\ [][TNext]_tvars

Diag == (l = StuckAt /\ l <= Len(Rec)) =>
          PrintT(<<"DIAG", l, Rec[l], IF Rec[l].ev = "retrieve" THEN RetrieveChecks(Rec[l]) ELSE <<>>,
                   IF Rec[l].ev = "retrieve" THEN tt[Rec[l].key] ELSE <<>> >>)
EvictCount == (l = Len(Rec) + 1) => PrintT(<<"EVICTIONS", evictions>>)
Accepted == LET d == TLCGet("stats").diameter
            IN IF d = Len(Rec) + 1 THEN TRUE ELSE Print(<<"REJECTED", d>>, FALSE)
=============================================================================
