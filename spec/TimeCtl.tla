------------------------------- MODULE TimeCtl -------------------------------
(***************************************************************************)
(* Clock allocation (src/uci.rs: handle_go_command / calculate_move_time), *)
(* C12.  The formula is NOT pinned: the specification states the relation  *)
(* a budget must satisfy, so that any sound allocation (and any sound      *)
(* repair) is accepted.                                                    *)
(*                                                                         *)
(* As a state machine its states are the go commands with clock tokens:    *)
(* side to move, the four values, the order of the four token pairs.  TLC  *)
(* enumerates them exhaustively over a grid of boundary values and prints  *)
(* the command lines; the hooked handler reports what the REAL parser      *)
(* hands to the search (verif_go_budget).                                  *)
(***************************************************************************)
EXTENDS Integers, Sequences, FiniteSets, TLC, Json

CONSTANTS Times, Incs, Orders, EmitOn,
          Random      \* FALSE: the exhaustive grid; TRUE: random values (run with TLC -simulate)

Tokens == <<"wtime", "btime", "winc", "binc">>
Perms == {p \in [1..4 -> 1..4] : \A i, j \in 1..4 : i # j => p[i] # p[j]}
AllOrders == {[i \in 1..4 |-> Tokens[p[i]]] : p \in Perms}
OrderSet == IF Orders = "all" THEN AllOrders
            ELSE {<<"wtime","btime","winc","binc">>, <<"btime","wtime","binc","winc">>, <<"winc","binc","wtime","btime">>,
                  <<"binc","wtime","winc","btime">>, <<"wtime","winc","btime","binc">>, <<"btime","binc","winc","wtime">>}

ValOf(x, name) == CASE name = "wtime" -> x.wtime [] name = "btime" -> x.btime [] name = "winc" -> x.winc [] name = "binc" -> x.binc
\* "any subset": every non-empty sub-sequence of an order; a token that is absent has the value 0
TokenSet == {"wtime", "btime", "winc", "binc"}
Keep(o, m) == SelectSeq(o, LAMBDA t : t \in m)
SubOrders == UNION {{Keep(o, m) : m \in (SUBSET TokenSet) \ {{}}} : o \in OrderSet}
Present(x) == {x.order[i] : i \in 1..Len(x.order)}

VARIABLE g    \* [stm, wtime, btime, winc, binc, order, mtg, mtgpos]
\* `movestogo N` (moves to the next time control) is a standard token of a clock line; mtg = 0: absent.  The property lets
\* the budget depend on it (it is neither the opponent's clock nor the token order) but FitsClock must hold with it too.
MTG == {1, 2, 25, 40, 1000}
\* increments RELATIVE to the clock they belong to: just below / at / above it, and around the share of the
\* clock a per-move allocation typically hands out (an allocation that is sound for small increments can
\* still reach the whole clock when the increment is a little below it)
Near(t) == {x \in {t - 1, t + 1, t - 100, t - (t \div 25), t - (t \div 50), t - ((t \div 100) * 3), t \div 2} : x >= 0}
FullOrders == {o \in OrderSet : Len(o) = 4}
Pos2 == {"front", "back"}
GridInit == /\ g \in [stm : {"w", "b"}, wtime : Times, btime : Times, winc : Incs, binc : Incs, order : SubOrders, mtg : {0}, mtgpos : {"back"}]
                  \cup UNION {[stm : {"w"}, wtime : {t}, btime : {0, 60000}, winc : Near(t), binc : {0, 1000}, order : SubOrders, mtg : {0}, mtgpos : {"back"}] : t \in Times}
                  \cup UNION {[stm : {"b"}, btime : {t}, wtime : {0, 60000}, binc : Near(t), winc : {0, 1000}, order : SubOrders, mtg : {0}, mtgpos : {"back"}] : t \in Times}
                  \cup UNION {[stm : {"w"}, wtime : {t}, btime : {0, 60000}, winc : Near(t) \cup {0, 1000}, binc : {0, 1000}, order : FullOrders, mtg : MTG, mtgpos : Pos2] : t \in Times}
                  \cup UNION {[stm : {"b"}, btime : {t}, wtime : {0, 60000}, binc : Near(t) \cup {0, 1000}, winc : {0, 1000}, order : FullOrders, mtg : MTG, mtgpos : Pos2] : t \in Times}
                  \* a clock that has run out as some GUIs report it: a NEGATIVE number of milliseconds (and a negative increment, which no GUI
                  \* should send).  The most lenient reading there is: a negative clock is an expired clock - nothing may be budgeted from it.
                  \cup [stm : {"w"}, wtime : {-1, -50}, btime : {0, 60000}, winc : {0, 1000, -7}, binc : {0, 1000}, order : FullOrders, mtg : {0}, mtgpos : {"back"}]
                  \cup [stm : {"b"}, btime : {-1, -50}, wtime : {0, 60000}, binc : {0, 1000, -7}, winc : {0, 1000}, order : FullOrders, mtg : {0}, mtgpos : {"back"}]
                  \cup [stm : {"w", "b"}, wtime : {4000, 60000}, btime : {4000, 60000}, winc : {-7}, binc : {-7}, order : FullOrders, mtg : {0}, mtgpos : {"back"}]
            /\ \A t \in TokenSet \ Present(g) : ValOf(g, t) = 0
\* random go commands: clocks from a few magnitudes, increments anywhere between 0 and twice the clock
\* (a parameter that depends on the state keeps TLC from evaluating the draw once and caching it as a constant)
RandTime(dummy) == LET m == RandomElement({10, 1000, 6000, 100000, 10000000}) IN RandomElement(0..m)
RandInc(t) == IF RandomElement({TRUE, FALSE}) THEN RandomElement(0..(2 * t + 10)) ELSE RandomElement(0..5000)
RandGo(wt, bt) == [stm |-> RandomElement({"w", "b"}), wtime |-> wt, btime |-> bt, winc |-> RandInc(wt), binc |-> RandInc(bt),
                   order |-> RandomElement(OrderSet), mtg |-> RandomElement({0, 0, 1, 3, 17, 30, 40, 60, 200}),
                   mtgpos |-> RandomElement({"front", "back"})]
Init == IF Random THEN g = RandGo(RandTime(0), RandTime(1)) ELSE GridInit

RECURSIVE ClockText(_, _)
ClockText(x, ord) == IF ord = <<>> THEN "" ELSE " " \o Head(ord) \o " " \o ToString(ValOf(x, Head(ord))) \o ClockText(x, Tail(ord))
MtgText(x) == IF x.mtg = 0 THEN "" ELSE " movestogo " \o ToString(x.mtg)
GoText(x) == IF x.mtgpos = "front" THEN "go" \o MtgText(x) \o ClockText(x, x.order) ELSE "go" \o ClockText(x, x.order) \o MtgText(x)

Next == IF Random THEN /\ (EmitOn => PrintT(<<"@@", ToJson([k |-> "go", text |-> GoText(g), stm |-> g.stm,
                                            go |-> [wtime |-> g.wtime, btime |-> g.btime, winc |-> g.winc, binc |-> g.binc, mtg |-> g.mtg]])>>))
                           /\ g' = RandGo(RandTime(g), RandTime(g.order))
        ELSE UNCHANGED g
Spec == Init /\ [][Next]_g

OwnTime(x) == IF x.stm = "w" THEN x.wtime ELSE x.btime
OwnInc(x) == IF x.stm = "w" THEN x.winc ELSE x.binc

(* ---------------- the allocation as the code computes it today (NOT part of C12: a different sound formula
   is acceptable; a mismatch is reported as SPEC-DRIFT only) ---------------- *)
Min2(a, b) == IF a <= b THEN a ELSE b
Max2(a, b) == IF a >= b THEN a ELSE b
Reserve == 5000
ModelBudget(own, inc) == Min2((Max2(own - Reserve, 0) \div 25) + inc, own \div 2)
\* the transcription itself satisfies the relation for all values of the grid (checked by TLC as an invariant)

(* ---------------- the relation (C12) ---------------- *)
\* the budget never exceeds the mover's remaining time and is strictly below it whenever any remains
FitsClock(own, budget) == budget >= 0 /\ budget <= own /\ (own > 0 => budget < own)
\* the budget is a function of (side to move, own remaining time, own increment, moves to go) only: the opponent's
\* clock and the token order have no influence.  Stated over a set of observations:
OwnClockOnly(obs) == \A a \in obs, b \in obs :
                       (a.stm = b.stm /\ a.own = b.own /\ a.inc = b.inc /\ a.mtg = b.mtg) => a.budget = b.budget

Pos0(x) == IF x < 0 THEN 0 ELSE x     \* what the code's parser makes of a negative number: the token fails to parse, the value stays 0
ModelFits == LET own == Pos0(OwnTime(g))  b == ModelBudget(own, Pos0(OwnInc(g))) IN b >= 0 /\ b <= own /\ (own > 0 => b < own)
EmitInv == (EmitOn /\ ~Random) => PrintT(<<"@@", ToJson([k |-> "go", text |-> GoText(g), stm |-> g.stm,
                                            go |-> [wtime |-> g.wtime, btime |-> g.btime, winc |-> g.winc, binc |-> g.binc, mtg |-> g.mtg]])>>)
=============================================================================
