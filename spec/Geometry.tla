------------------------------ MODULE Geometry ------------------------------
(***************************************************************************)
(* Board geometry: slider attack sets by ray walks, leaper patterns,       *)
(* segments and lines between squares.  The reference for the engine's     *)
(* magic-bitboard and between/line tables (C10).                           *)
(***************************************************************************)
EXTENDS ChessRules

DirsOf(pc) == CASE pc = "R" -> RookD [] pc = "B" -> BishopD [] pc = "Q" -> QueenD

\* all squares on the rays of a piece standing on s, ascending
RaySquares(s, D) == UNION {{Ray[s][d][i] : i \in 1..Len(Ray[s][d])} : d \in D}
RECURSIVE SortedSeq(_)
SortedSeq(S) == IF S = {} THEN <<>>
                ELSE LET m == CHOOSE x \in S : \A y \in S : x <= y IN <<m>> \o SortedSeq(S \ {m})

\* squares attacked by a slider on s when exactly the squares in occ are occupied:
\* along each ray up to and including the first blocker
SlideAttack(s, occ, D) ==
  UNION { LET ray == Ray[s][d]
              blk == {i \in 1..Len(ray) : ray[i] \in occ}
              n == IF blk = {} THEN Len(ray) ELSE CHOOSE i \in blk : \A j \in blk : i <= j
          IN {ray[i] : i \in 1..n} : d \in D }

\* subset number i of a sorted sequence of squares rs: bit j-1 of i selects rs[j]
Pow2 == [j \in 0..30 |-> 2^j]
Bit(i, j) == (i \div Pow2[j]) % 2 = 1
SubsetOf(rs, i) == {rs[j] : j \in {x \in 1..Len(rs) : Bit(i, x - 1)}}
\* a set of squares as a bit mask over rs
RECURSIVE MaskSum(_, _, _)
MaskSum(rs, S, j) == IF j > Len(rs) THEN 0 ELSE (IF rs[j] \in S THEN Pow2[j - 1] ELSE 0) + MaskSum(rs, S, j + 1)
MaskOver(rs, S) == MaskSum(rs, S, 1)

\* direction from a to b if they share a rank, file or diagonal
Sgn(x) == IF x > 0 THEN 1 ELSE IF x < 0 THEN -1 ELSE 0
Aligned(a, b) == LET df == File(b) - File(a)  dr == Rank(b) - Rank(a)
                 IN a # b /\ (df = 0 \/ dr = 0 \/ df = dr \/ df = -dr)
DirTo(a, b) == <<Sgn(File(b) - File(a)), Sgn(Rank(b) - Rank(a))>>
IdxOn(ray, t) == CHOOSE i \in 1..Len(ray) : ray[i] = t
\* the segment from a to b, both ends included; empty for non-aligned pairs and for a = b
Segment(a, b) == IF ~Aligned(a, b) THEN {}
                 ELSE LET ray == Ray[a][DirTo(a, b)] IN {a} \cup {ray[i] : i \in 1..IdxOn(ray, b)}
\* the whole line through a and b from edge to edge; empty for non-aligned pairs and for a = b
LineThrough(a, b) == IF ~Aligned(a, b) THEN {}
                     ELSE LET d == DirTo(a, b)  e == <<-d[1], -d[2]>>
                              fwd == Ray[a][d]  bwd == Ray[a][e]
                          IN {a} \cup {fwd[i] : i \in 1..Len(fwd)} \cup {bwd[i] : i \in 1..Len(bwd)}

(* internal consistency, checked by TLC as ASSUMEs of GeoTrace *)
GeoSane ==
  /\ \A a \in Squares, b \in Squares : Segment(a, b) = Segment(b, a) /\ LineThrough(a, b) = LineThrough(b, a)
  /\ \A a \in Squares, b \in Squares : Segment(a, b) \subseteq LineThrough(a, b)
  /\ \A a \in Squares, b \in Squares : (b \in RaySquares(a, QueenD)) <=> Aligned(a, b)
  /\ \A a \in Squares : \A b \in KnightT[a] : a \in KnightT[b]
  /\ \A a \in Squares : \A b \in KingT[a] : a \in KingT[b]
  /\ \A a \in Squares, b \in Squares : Aligned(a, b) =>
        LET D == IF File(a) = File(b) \/ Rank(a) = Rank(b) THEN RookD ELSE BishopD
        IN /\ Segment(a, b) = {a, b} \cup (SlideAttack(a, {b}, D) \cap SlideAttack(b, {a}, D))
           /\ LineThrough(a, b) = {a, b} \cup (SlideAttack(a, {}, D) \cap SlideAttack(b, {}, D))
=============================================================================
