----------------------------- MODULE BellmanTrace -----------------------------
(***************************************************************************)
(* C05 on arbitrary positions: the minimax recursion.                      *)
(*                                                                         *)
(* "The reported score equals the minimax value of the depth-limited game  *)
(* tree whose leaves are scored by the engine's own quiescence evaluation, *)
(* and the returned move attains that value" is, by induction on the       *)
(* depth, exactly                                                          *)
(*      V(p, d) = max { -V(p.m, d-1) : m legal in p }        (d >= 1)      *)
(*      the returned move m* has -V(p.m*, d-1) = V(p, d)                   *)
(* where every V is a completed full-window search of a FRESH engine and   *)
(* V(., 0) is the quiescence value.  This is Search.tla's MM (the          *)
(* definition of ResultIsMinimax) unrolled by one ply; the recorded values *)
(* of the real engine are checked against it.  The legal moves are the     *)
(* specification's (ChessRules): an event whose move list differs is not   *)
(* judged here (that is C01's business).  Values at or beyond the window   *)
(* are compared as won / lost.  No game graph is needed, so positions with *)
(* an unbounded quiescence tree are in scope.                              *)
(***************************************************************************)
EXTENDS ChessRules, Json, IOUtils

Rec == ndJsonDeserialize(IOEnv.TRACE)
StuckAt == IF "STUCK" \in DOMAIN IOEnv THEN atoi(IOEnv.STUCK) ELSE 0

W == 32767
Cls(v) == IF v <= -W THEN -W ELSE IF v >= W THEN W ELSE v
PanicCode == 99999999
SetMax(S) == CHOOSE x \in S : \A y \in S : x >= y

Kids(e) == {e.kids[i] : i \in 1..Len(e.kids)}
KidTexts(e) == {k[1] : k \in Kids(e)}
Best(e) == SetMax({Cls(-k[2]) : k \in Kids(e)})
Checks(e) ==
  IF "panic" \in DOMAIN e \/ \E k \in Kids(e) : k[2] = PanicCode THEN [C05_search_survives |-> FALSE]
  ELSE [C05_value_is_max_over_the_moves |-> Cls(e.v) = Best(e),
        C05_returned_move_attains_it    |-> \E k \in Kids(e) : k[1] = e.move /\ Cls(-k[2]) = Best(e),
        \* the same root through the public entry point find_best_move (iterative deepening from depth 1)
        C05_public_search_survives |-> "pub" \in DOMAIN e => e.pub[1] # PanicCode,
        C05_public_search_value_is_max_over_the_moves |-> ("pub" \in DOMAIN e /\ e.pub[1] # PanicCode) => Cls(e.pub[1]) = Best(e),
        C05_public_search_move_attains_it |-> ("pub" \in DOMAIN e /\ e.pub[1] # PanicCode) =>
                                                 \E k \in Kids(e) : k[1] = e.pub[2] /\ Cls(-k[2]) = Best(e)]

\* C06 on arbitrary positions: after an interruption at the j-th poll, a completed fixed-depth search on the same
\* Searcher reports what a fresh engine reports, and the game-history stack is as it was (empty here)
Runs(e) == {e.runs[i] : i \in 1..Len(e.runs)}
AbortChecks(e) ==
  [C06_later_search_survives |-> \A r \in Runs(e) : r[2] # PanicCode,
   C06_later_search_reports_the_fresh_value |-> \A r \in Runs(e) : r[2] = PanicCode \/ Cls(r[2]) = Cls(e.fresh),
   \* the engine's record of the game history is as it was: the stack has the length the history gave it, and the engine answers
   \* the repetition question for every successor of the root exactly as it did before the interrupted search
   C06_history_as_before |-> \A r \in Runs(e) : r[2] = PanicCode \/ r[3] = (IF "hist" \in DOMAIN e THEN e.hist ELSE 0),
   C06_repetition_answers_as_before |-> \A r \in Runs(e) : Len(r) < 5 \/ r[4] = r[5]]

VARIABLES l, skipped
vars == <<l, skipped>>
TInit == l = 1 /\ skipped = 0
IsEvent(x) == l <= Len(Rec) /\ Rec[l].ev = x /\ l' = l + 1
Judged(e) == LET p == FromJson(e.pos) IN Valid(p) /\ ("kids" \in DOMAIN e => KidTexts(e) = {Uci(m) : m \in Legal(p)})
TBellman == /\ IsEvent("bellman")
            /\ IF Judged(Rec[l])
               THEN (LET c == Checks(Rec[l]) IN \A k \in DOMAIN c : c[k]) /\ UNCHANGED skipped
               ELSE skipped' = skipped + 1
TAbortEq == /\ IsEvent("aborteq")
            /\ IF Valid(FromJson(Rec[l].pos))
               THEN (LET c == AbortChecks(Rec[l]) IN \A k \in DOMAIN c : c[k]) /\ UNCHANGED skipped
               ELSE skipped' = skipped + 1
TSpec == TInit /\ [][TBellman \/ TAbortEq]_vars

Diag == (l = StuckAt /\ l <= Len(Rec)) =>
          PrintT(<<"DIAG", l, Rec[l].fen, "depth", Rec[l].d,
                   IF Rec[l].ev = "aborteq" THEN <<AbortChecks(Rec[l]), "fresh", Rec[l].fresh, "interrupted at poll -> later value",
                                                     {<<r[1], r[2], r[3]>> : r \in {x \in Runs(Rec[l]) : Cls(x[2]) # Cls(Rec[l].fresh) \/ (Len(x) >= 5 /\ x[4] # x[5])}}>>
                   ELSE Checks(Rec[l]),
                   IF "v" \in DOMAIN Rec[l] THEN <<"reported", Rec[l].v, Rec[l].move, "max over the moves", Best(Rec[l]),
                                                    "attained by", {k[1] : k \in {x \in Kids(Rec[l]) : Cls(-x[2]) = Best(Rec[l])}}>> ELSE <<>> >>)
Skipped == (l = Len(Rec) + 1) => PrintT(<<"SKIPPED-NOT-JUDGED", skipped>>)
Accepted == LET d == TLCGet("stats").diameter
            IN IF d = Len(Rec) + 1 THEN TRUE ELSE Print(<<"REJECTED", d>>, FALSE)
=============================================================================
