--------------------------- MODULE TTSearchTrace ---------------------------
(***************************************************************************)
(* C15 inside the engine, across searches.  One Searcher runs a sequence   *)
(* of real searches (deep, shallow, shallow, another position, deep        *)
(* again); after each the whole table is read back and joined with the     *)
(* table before it.  TT.tla's action property DeepestWins, restated over   *)
(* what the join shows: an entry that is still there after a search and    *)
(* was changed by it was changed by an equal-or-deeper store - its depth   *)
(* did not go down.  Entries that disappeared are the named deviation      *)
(* Evict (a lookup answering "nothing" is allowed) and only counted.       *)
(***************************************************************************)
EXTENDS Integers, Sequences, Json, IOUtils, TLC

Rec == ndJsonDeserialize(IOEnv.TRACE)
StuckAt == IF "STUCK" \in DOMAIN IOEnv THEN atoi(IOEnv.STUCK) ELSE 0
VARIABLES l, evicted, replaced
vars == <<l, evicted, replaced>>
TInit == l = 1 /\ evicted = 0 /\ replaced = 0
IsEvent(e) == l <= Len(Rec) /\ Rec[l].ev = e /\ l' = l + 1

StepChecks(e) ==
  IF "panic" \in DOMAIN e THEN [C15_search_survives |-> FALSE]
  ELSE [C15_shallower_never_replaces_deeper_across_searches |-> \A i \in 1..Len(e.changed) : e.changed[i][3] >= e.changed[i][2]]
TNew == IsEvent("ttnew") /\ UNCHANGED <<evicted, replaced>>
TStep == /\ IsEvent("ttstep")
         /\ LET c == StepChecks(Rec[l]) IN \A k \in DOMAIN c : c[k]
         /\ evicted' = evicted + Rec[l].gone /\ replaced' = replaced + Len(Rec[l].changed)
TSpec == TInit /\ [][TNew \/ TStep]_vars

Diag == (l = StuckAt /\ l <= Len(Rec)) =>
          PrintT(<<"DIAG", l, Rec[l].fen, "depth", Rec[l].depth,
                   IF Rec[l].ev = "ttstep" THEN StepChecks(Rec[l]) ELSE <<>>,
                   IF Rec[l].ev = "ttstep" /\ "changed" \in DOMAIN Rec[l]
                   THEN {Rec[l].changed[i] : i \in {j \in 1..Len(Rec[l].changed) : Rec[l].changed[j][3] < Rec[l].changed[j][2]}} ELSE {}>>)
Counts == (l = Len(Rec) + 1) => PrintT(<<"TTSEARCH", replaced, evicted>>)
Accepted == LET d == TLCGet("stats").diameter
            IN IF d = Len(Rec) + 1 THEN TRUE ELSE Print(<<"REJECTED", d>>, FALSE)
=============================================================================
