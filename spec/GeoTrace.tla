------------------------------ MODULE GeoTrace ------------------------------
(***************************************************************************)
(* C10, implementation -> specification.  The harness dumps the engine's   *)
(* look-up answers:                                                        *)
(*  "slider"  one event per (piece R|B, square): the answer for EVERY      *)
(*            subset of the square's ray squares (subset numbering and ray *)
(*            list are those printed by this specification in emit mode),  *)
(*            each answer as a bit mask over the ray squares plus the      *)
(*            number of answer bits off the rays (must be 0), and the      *)
(*            engine's pre-mask as a set of squares (must be on the rays:  *)
(*            then bits off the rays cannot influence the answer);         *)
(*  "noise"   sampled full 64-bit occupancies for R, B, Q;                 *)
(*  "leaper"  knight and king tables;                                      *)
(*  "pairs"   segment / line tables for all 64 x 64 pairs.                 *)
(***************************************************************************)
EXTENDS Geometry, Json, IOUtils

Mode == IF "GEOMODE" \in DOMAIN IOEnv THEN IOEnv.GEOMODE ELSE "validate"
Rec == IF Mode = "validate" THEN ndJsonDeserialize(IOEnv.TRACE) ELSE <<>>
StuckAt == IF "STUCK" \in DOMAIN IOEnv THEN atoi(IOEnv.STUCK) ELSE 0

VARIABLE l
TInit == l = 1
IsEvent(e) == l <= Len(Rec) /\ Rec[l].ev = e /\ l' = l + 1

RaysOf(pc, s) == SortedSeq(RaySquares(s, DirsOf(pc)))

SliderChecks(e) ==
  LET rs == RaysOf(e.pc, e.sq)  D == DirsOf(e.pc)  n == Len(rs)
  IN [C10_ray_list  |-> e.rays = rs,
      C10_all_subsets |-> Len(e.ans) = Pow2[n],
      C10_mask_on_rays |-> SeqToSet(e.mask) \subseteq RaySquares(e.sq, D),
      C10_nothing_off_ray |-> e.off = 0,
      C10_attack_sets |-> \A i \in 0..(Pow2[n] - 1) : e.ans[i + 1] = MaskOver(rs, SlideAttack(e.sq, SubsetOf(rs, i), D))]

NoiseChecks(e) ==
  LET rs == RaysOf(e.pc, e.sq)
  IN [C10_nothing_off_ray |-> e.off = 0,
      C10_attack_sets |-> e.ans = MaskOver(rs, SlideAttack(e.sq, SeqToSet(e.occ), DirsOf(e.pc)))]

LeaperChecks(e) ==
  [C10_knight |-> SeqToSet(e.knight) = KnightT[e.sq] /\ Len(e.knight) = Cardinality(KnightT[e.sq]),
   C10_king   |-> SeqToSet(e.king) = KingT[e.sq] /\ Len(e.king) = Cardinality(KingT[e.sq])]

PairChecks(e) ==
  [C10_segment |-> \A b \in Squares : SeqToSet(e.seg[b + 1]) = Segment(e.sq, b),
   C10_line    |-> \A b \in Squares : SeqToSet(e.line[b + 1]) = LineThrough(e.sq, b)]

ChecksOf(e) == CASE e.ev = "slider" -> SliderChecks(e)
                 [] e.ev = "noise" -> NoiseChecks(e)
                 [] e.ev = "leaper" -> LeaperChecks(e)
                 [] e.ev = "pairs" -> PairChecks(e)

AllTrue(c) == \A k \in DOMAIN c : c[k]
TSlider == IsEvent("slider") /\ AllTrue(SliderChecks(Rec[l]))
TNoise == IsEvent("noise") /\ AllTrue(NoiseChecks(Rec[l]))
TLeaper == IsEvent("leaper") /\ AllTrue(LeaperChecks(Rec[l]))
TPairs == IsEvent("pairs") /\ AllTrue(PairChecks(Rec[l]))

\* emit mode: print the ray list of every (piece, square) - the enumeration the harness must follow
EmitRays == /\ Mode = "emit" /\ l = 1 /\ l' = 2
            /\ \A pc \in {"R", "B", "Q"}, s \in Squares :
                 PrintT(<<"@@", ToJson([pc |-> pc, sq |-> s, rays |-> RaysOf(pc, s)])>>)
            /\ Assert(GeoSane, "geometry specification is inconsistent")

TNext == TSlider \/ TNoise \/ TLeaper \/ TPairs \/ EmitRays
TSpec == TInit /\ [][TNext]_l

Diag == (l = StuckAt /\ l <= Len(Rec)) =>
          PrintT(<<"DIAG", l, Rec[l].ev, [k \in {"pc", "sq"} \cap DOMAIN Rec[l] |-> Rec[l][k]],
                   IF Rec[l].ev \in {"slider", "noise", "leaper", "pairs"} THEN ChecksOf(Rec[l])
                   ELSE <<"no action allows", Rec[l].ev>> >>)
Accepted == LET d == TLCGet("stats").diameter
            IN IF Mode = "emit" \/ d = Len(Rec) + 1 THEN TRUE ELSE Print(<<"REJECTED", d>>, FALSE)
=============================================================================
